//! C13 part 2 — mutation / recombination components (module of bin `c13`): every case runs the
//! REAL component through `init` + `execute` on a `State` with one (DE crossover: two) population(s).
//! The harness prints input and resulting population only; the witness (indices, masks, draws) is
//! read off the unique element tags by the Lean driver, which also checks that it is a legal one.
//! `(state ..)` cases run whole configurations (blocks, scopes, loops; several `Configuration::run`) on ONE
//! `State` and print the population after every execution of a mutation component.
use hcommon::problems::{OneMax, Sphere, Tsp};
use hcommon::*;
use mahf::components::mutation::de::DEMutation;
use mahf::components::mutation::common::InsertionMutation;
use mahf::components::mutation::*;
use mahf::components::recombination::de::{DEBinomialCrossover, DEExponentialCrossover};
use mahf::components::recombination::*;
use mahf::identifier::A;
use mahf::state::common::Populations;
use mahf::{Component, Individual, Problem, Random, SingleObjective, State};
use rand::{RngCore, SeedableRng};

/// A generator whose every word is zero: `gen::<f64>()` = 0.0, the smallest possible draw.
pub struct ZeroRng;
impl RngCore for ZeroRng {
    fn next_u32(&mut self) -> u32 { 0 }
    fn next_u64(&mut self) -> u64 { 0 }
    fn fill_bytes(&mut self, dest: &mut [u8]) { for b in dest { *b = 0 } }
    fn try_fill_bytes(&mut self, dest: &mut [u8]) -> Result<(), rand::Error> { self.fill_bytes(dest); Ok(()) }
}
impl SeedableRng for ZeroRng {
    type Seed = [u8; 8];
    fn from_seed(_: [u8; 8]) -> Self { ZeroRng }
}

fn fl(x: &Sx) -> Vec<f64> { x.items().unwrap().iter().map(|t| t.float().unwrap()).collect() }
fn us(x: &Sx) -> Vec<usize> { x.items().unwrap().iter().map(|t| t.nat().unwrap() as usize).collect() }
fn bl(x: &Sx) -> Vec<bool> { x.items().unwrap().iter().map(|t| t.atom().unwrap() == "t").collect() }
fn fs(v: &[f64]) -> String { list(v.iter().map(|&x| fx(x))) }
fn vs(v: &[usize]) -> String { nats(v.iter().map(|&x| x as u64)) }
fn bs(v: &[bool]) -> String { list(v.iter().map(|&x| b(x))) }
fn pop_of<T>(x: &Sx, f: impl Fn(&Sx) -> Vec<T>) -> Vec<Vec<T>> {
    let (_, sols) = x.head().unwrap();
    sols.iter().map(|s| f(s)).collect()
}
fn rng_of(x: &Sx) -> Random {
    match x.atom().unwrap() {
        "zero" => Random::with_rng::<ZeroRng>(0),
        s => Random::new(s.parse().unwrap()),
    }
}

/// Runs `init` + `execute` of `comp` on a state holding `pops` (bottom first) of EVALUATED individuals;
/// prints the stack height, the evaluated flags and the solutions of the top population.
fn run<P: Problem<Objective = SingleObjective>>(problem: &P, comp: Result<Box<dyn Component<P>>, ()>, rng: Random,
                   pops: Vec<Vec<P::Encoding>>, show: impl Fn(&P::Encoding) -> String) -> String {
    run_adapted(problem, comp, rng, pops, show, |_| {})
}

/// As `run`, with `adapt` applied to the state between `init` and `execute` (run-time adaptation of
/// the parameters the component stored in the state).
fn run_adapted<P: Problem<Objective = SingleObjective>>(problem: &P, comp: Result<Box<dyn Component<P>>, ()>, rng: Random,
                   pops: Vec<Vec<P::Encoding>>, show: impl Fn(&P::Encoding) -> String,
                   adapt: impl FnOnce(&mut State<P>)) -> String {
    let Ok(comp) = comp else { return "(e ctor)".into() };
    let r = catch(|| {
        let mut state: State<P> = State::new();
        state.insert(Populations::<P>::new());
        state.insert(rng);
        for p in pops {
            state.populations_mut().push(p.into_iter().map(|s| Individual::new(s, SingleObjective::try_from(1.0).unwrap())).collect());
        }
        if comp.init(problem, &mut state).is_err() { return "(e init)".to_string(); }
        adapt(&mut state);
        match comp.execute(problem, &mut state) {
            Err(_) => "(e exec)".to_string(),
            Ok(()) => {
                let pops = state.populations();
                let top: Vec<String> = pops.current().iter().map(|i| show(i.solution())).collect();
                let ev: Vec<String> = pops.current().iter().map(|i| b(i.is_evaluated())).collect();
                list(["ok".to_string(), pops.len().to_string(), tagged("ev", ev), tagged("pop", top)])
            }
        }
    });
    r.unwrap_or_else(|| "panic".into())
}

/// `-` (keep) or a float.
fn optf(x: &Sx) -> Option<f64> { if x.atom() == Some("-") { None } else { Some(x.float().unwrap()) } }

/// Overwrites the strength / rate states of component type `T` the way `mode` says.
fn adapt_states<P: Problem, T: mahf::component::AnyComponent + 'static>(state: &mut State<P>, mode: &str, s: Option<f64>, r: Option<f64>) {
    if let Some(v) = s {
        if mode == "insert" { state.insert(MutationStrength::<T>::new(v)); } else { state.set_value::<MutationStrength<T>>(v); }
    }
    if let Some(v) = r {
        if mode == "insert" { state.insert(MutationRate::<T>::new(v)); } else { state.set_value::<MutationRate<T>>(v); }
    }
}

/// A user-side `Mutation` run through the default driver `mutation()`: reverses (kind 0), rotates
/// (kind 1) or keeps (kind 2) a solution, and fails on a solution containing the gene `fail`.
#[derive(Clone, serde::Serialize)]
pub struct TagMutation { kind: u64, fail: usize }
impl Mutation<Tsp> for TagMutation {
    fn mutate(&self, solution: &mut Vec<usize>, _problem: &Tsp, _state: &mut State<Tsp>) -> mahf::ExecResult<()> {
        if solution.contains(&self.fail) { return Err(eyre::eyre!("refused")); }
        match self.kind { 0 => solution.reverse(), 1 => { if !solution.is_empty() { solution.rotate_left(1) } } _ => {} }
        Ok(())
    }
}

/// Initialises ALL components on one state (each inserts its own rate / strength states), then executes
/// them one after the other; prints one standard result per executed component, stopping at the first failure.
fn run_phases<P: Problem<Objective = SingleObjective>>(problem: &P, comps: Vec<Box<dyn Component<P>>>, rng: Random,
                   pop: Vec<P::Encoding>, show: impl Fn(&P::Encoding) -> String) -> String {
    let mut state: State<P> = State::new();
    state.insert(Populations::<P>::new());
    state.insert(rng);
    state.populations_mut().push(pop.into_iter().map(|s| Individual::new(s, SingleObjective::try_from(1.0).unwrap())).collect());
    let mut phases = vec![];
    if catch(|| comps.iter().all(|c| c.init(problem, &mut state).is_ok())) != Some(true) {
        return tagged("phases", ["(e init)".to_string()]);
    }
    for c in &comps {
        let r = catch(|| match c.execute(problem, &mut state) {
            Err(_) => "(e exec)".to_string(),
            Ok(()) => {
                let pops = state.populations();
                let top: Vec<String> = pops.current().iter().map(|i| show(i.solution())).collect();
                let ev: Vec<String> = pops.current().iter().map(|i| b(i.is_evaluated())).collect();
                list(["ok".to_string(), pops.len().to_string(), tagged("ev", ev), tagged("pop", top)])
            }
        }).unwrap_or_else(|| "panic".into());
        let ok = r.starts_with("(ok");
        phases.push(r);
        if !ok { break; }
    }
    tagged("phases", phases)
}


// ------------------------------------------------------------------ whole configurations on one State
/// Records the current population (the standard `(ok H (ev..) (pop..))` result) each time it is executed.
#[derive(Clone)]
pub struct Snap<E> { sink: std::sync::Arc<std::sync::Mutex<Vec<String>>>, show: fn(&E) -> String }
impl<E> serde::Serialize for Snap<E> {
    fn serialize<S: serde::Serializer>(&self, s: S) -> Result<S::Ok, S::Error> { s.serialize_unit_struct("Snap") }
}
impl<P: Problem<Objective = SingleObjective>> Component<P> for Snap<P::Encoding> where P::Encoding: Clone + Send + Sync + 'static {
    fn execute(&self, _problem: &P, state: &mut State<P>) -> mahf::ExecResult<()> {
        let pops = state.populations();
        let top: Vec<String> = pops.current().iter().map(|i| (self.show)(i.solution())).collect();
        let ev: Vec<String> = pops.current().iter().map(|i| b(i.is_evaluated())).collect();
        self.sink.lock().unwrap().push(list(["ok".to_string(), pops.len().to_string(), tagged("ev", ev), tagged("pop", top)]));
        Ok(())
    }
}

type Leaf<'a, P> = &'a dyn Fn(&str, f64, f64) -> Box<dyn Component<P>>;

/// `t` / `f` → a real condition that evaluates to that constant.
fn cond_of<P: Problem>(c: &Sx) -> Box<dyn mahf::Condition<P>> {
    mahf::conditions::RandomChance::new(match c.atom().unwrap() { "t" => 1.0, "f" => 0.0, o => panic!("unknown condition {o}") })
}

/// `C (then ITEM*) (else ITEM*)` → the items of the two arms.
fn arms(a: &[Sx]) -> (&[Sx], &[Sx]) {
    let (ht, tb) = a[1].head().unwrap();
    let (he, eb) = a[2].head().unwrap();
    assert!(ht == "then" && he == "else" && a.len() == 3);
    (tb, eb)
}

/// `(m ID P1 RM)` → the real component followed by a `Snap`; `(scope ITEM*)` → `Scope::new`; `(loop K ITEM*)` →
/// `Loop::new(LessThanN::iterations(K), ..)`; `(if C ITEM*)` → `Branch::new`, `(ifelse C (then ITEM*) (else ITEM*))` →
/// `Branch::new_with_else`, the condition `C` = `t` / `f` being the real `RandomChance` with probability 1 / 0;
/// `bscope` / `bwhile` / `bif` / `bifelse`: the same constructs through the builder's `scope_` / `while_` / `if_` /
/// `if_else_` (closures over a fresh builder, `build_component`).
fn build_items<P: Problem<Objective = SingleObjective>>(items: &[Sx], leaf: Leaf<P>, snap: &Snap<P::Encoding>) -> Vec<Box<dyn Component<P>>>
where P::Encoding: Clone + Send + Sync + 'static {
    let mut v: Vec<Box<dyn Component<P>>> = vec![];
    for it in items {
        let (h, a) = it.head().unwrap();
        match h {
            "m" => {
                v.push(leaf(a[0].atom().unwrap(), a[1].float().unwrap(), a[2].float().unwrap()));
                v.push(Box::new(snap.clone()));
            }
            "scope" => v.push(mahf::components::Scope::new(build_items(a, leaf, snap))),
            "loop" => v.push(mahf::components::Loop::new(
                mahf::conditions::LessThanN::iterations(a[0].nat().unwrap() as u32), build_items(&a[1..], leaf, snap))),
            "if" => v.push(mahf::components::Branch::new(cond_of(&a[0]), build_items(&a[1..], leaf, snap))),
            "ifelse" => {
                let (tb, eb) = arms(a);
                v.push(mahf::components::Branch::new_with_else(cond_of(&a[0]), build_items(tb, leaf, snap), build_items(eb, leaf, snap)));
            }
            "bscope" => v.push(mahf::Configuration::builder().scope_(|b| b.do_many_(build_items(a, leaf, snap))).build_component()),
            "bwhile" => v.push(mahf::Configuration::builder().while_(
                mahf::conditions::LessThanN::iterations(a[0].nat().unwrap() as u32), |b| b.do_many_(build_items(&a[1..], leaf, snap))).build_component()),
            "bif" => v.push(mahf::Configuration::builder().if_(cond_of(&a[0]), |b| b.do_many_(build_items(&a[1..], leaf, snap))).build_component()),
            "bifelse" => {
                let (tb, eb) = arms(a);
                v.push(mahf::Configuration::builder().if_else_(cond_of(&a[0]),
                    |b| b.do_many_(build_items(tb, leaf, snap)), |b| b.do_many_(build_items(eb, leaf, snap))).build_component());
            }
            _ => panic!("unknown item {h}"),
        }
    }
    v
}

/// Every `(run ITEM*)` is built with the real `Configuration::builder()` and executed by `Configuration::run` on
/// ONE `State` (which starts with the population `pop`); per run the status and the population after every
/// execution of a mutation component.
fn run_state<P: Problem<Objective = SingleObjective>>(problem: &P, runs: &[Sx], rng: Random, pop: Vec<P::Encoding>,
                  show: fn(&P::Encoding) -> String, leaf: Leaf<P>) -> String
where P::Encoding: Clone + Send + Sync + 'static {
    let mut state: State<P> = State::new();
    state.insert(Populations::<P>::new());
    state.insert(rng);
    state.populations_mut().push(pop.into_iter().map(|s| Individual::new(s, SingleObjective::try_from(1.0).unwrap())).collect());
    let sink = std::sync::Arc::new(std::sync::Mutex::new(Vec::<String>::new()));
    let snap = Snap { sink: sink.clone(), show };
    let mut out = vec![];
    for r in runs {
        let (_, items) = r.head().unwrap();
        let status = catch(|| {
            let config = mahf::Configuration::builder().do_many_(build_items(items, leaf, &snap)).build();
            if config.run(problem, &mut state).is_ok() { "ok" } else { "err" }
        });
        let snaps: Vec<String> = std::mem::take(&mut *sink.lock().unwrap());
        out.push(tagged("run", std::iter::once(status.unwrap_or("panic").to_string()).chain(snaps)));
        if status.is_none() { break; }      // the state may be torn after a panic
    }
    tagged("runs", out)
}

macro_rules! with_id {
    ($id:expr, $I:ident => $e:expr) => {
        match $id {
            "g" => { type $I = mahf::identifier::Global; $e }
            "a" => { type $I = mahf::identifier::A; $e }
            "b" => { type $I = mahf::identifier::B; $e }
            other => panic!("unknown identifier {other}"),
        }
    };
}

/// `(state KIND SEED (pop ..) (run ITEM*)+)`
fn run_state_case(a: &[Sx]) -> String {
    let kind = a[0].atom().unwrap().to_string();
    let runs = &a[3..];
    match kind.as_str() {
        "normal" | "uniform" | "spread" => {
            let pop = pop_of(&a[2], fl);
            let problem = Sphere::new(pop.first().map_or(1, |s| s.len()).max(1), -5.0, 5.0, 0.0);
            let leaf = |id: &str, p1: f64, rm: f64| -> Box<dyn Component<Sphere>> {
                with_id!(id, I => match kind.as_str() {
                    "normal" => NormalMutation::<I>::new_with_id(p1, rm),
                    "uniform" => UniformMutation::<I>::new_with_id(p1, rm),
                    _ => PartialRandomSpread::<I>::new_with_id(rm),
                })
            };
            run_state(&problem, runs, rng_of(&a[1]), pop, |s: &Vec<f64>| fs(s), &leaf)
        }
        "bitflip" | "bits" => {
            let pop = pop_of(&a[2], bl);
            let problem = OneMax::new(pop.first().map_or(0, |s| s.len()));
            let leaf = |id: &str, p1: f64, rm: f64| -> Box<dyn Component<OneMax>> {
                with_id!(id, I => if kind == "bitflip" { BitFlipMutation::<I>::new_with_id(rm) }
                                  else { PartialRandomBitstring::<I>::new_with_id(p1, rm) })
            };
            run_state(&problem, runs, rng_of(&a[1]), pop, |s: &Vec<bool>| bs(s), &leaf)
        }
        _ => {
            let pop = pop_of(&a[2], us);
            let n = pop.first().map_or(0, |s| s.len());
            let problem = Tsp::new(vec![vec![1.0; n]; n]);
            let leaf = |id: &str, _p1: f64, rm: f64| -> Box<dyn Component<Tsp>> {
                with_id!(id, I => ScrambleMutation::<I>::new_with_id(rm))
            };
            run_state(&problem, runs, rng_of(&a[1]), pop, |s: &Vec<usize>| vs(s), &leaf)
        }
    }
}

/// The instances initialised at one level (loops and both arms of a branch belong to the level, scopes open a new one) all agree on the
/// values they share; checked for every level.
fn levels_consistent(items: &[Sx], has_strength: bool) -> bool {
    fn level<'a>(items: &'a [Sx], out: &mut Vec<(&'a str, u64, u64)>, scopes: &mut Vec<&'a [Sx]>) {
        for it in items {
            let (h, a) = it.head().unwrap();
            match h {
                "m" => out.push((a[0].atom().unwrap(), a[1].float().unwrap().to_bits(), a[2].float().unwrap().to_bits())),
                "scope" | "bscope" => scopes.push(a),
                "then" | "else" => level(a, out, scopes),
                // loop K .. / if C .. / ifelse C (then ..) (else ..): the bodies belong to this level
                _ => level(&a[1..], out, scopes),
            }
        }
    }
    let (mut here, mut scopes) = (vec![], vec![]);
    level(items, &mut here, &mut scopes);
    let ok = here.iter().all(|c| here.iter().all(|d| c.0 != d.0 || (c.2 == d.2 && (!has_strength || c.1 == d.1))));
    ok && scopes.iter().all(|s| levels_consistent(s, has_strength))
}

fn state_site(a: &[Sx]) -> String {
    let kind = a[0].atom().unwrap();
    let base = match kind { "normal" => "NormalMutation", "uniform" => "UniformMutation", "spread" => "PartialRandomSpread",
                            "bitflip" => "BitFlipMutation", "bits" => "PartialRandomBitstring", _ => "ScrambleMutation" };
    let runs = &a[3..];
    fn nested(items: &[Sx]) -> bool {
        items.iter().any(|it| { let (h, a) = it.head().unwrap(); match h {
            "scope" | "bscope" => true, "m" => false, "then" | "else" => nested(a), _ => nested(&a[1..]) } })
    }
    fn branched(items: &[Sx]) -> bool {
        items.iter().any(|it| { let (h, a) = it.head().unwrap(); match h {
            "if" | "ifelse" | "bif" | "bifelse" => true, "m" => false, "scope" | "bscope" => branched(a), _ => branched(&a[1..]) } })
    }
    let nest = runs.iter().any(|r| nested(r.head().unwrap().1));
    let branch = if runs.iter().any(|r| branched(r.head().unwrap().1)) { "+branch" } else { "" };
    let shape = match (runs.len() > 1, nest) { (true, true) => "@rerun-nested", (true, false) => "@rerun", (false, true) => "@nested", _ => "@sequence" };
    let ok = runs.iter().all(|r| levels_consistent(r.head().unwrap().1, kind == "normal" || kind == "uniform"));
    format!("{base}{shape}{branch}{}", if ok { "" } else { "!malformed" })
}

/// `(a P1 P2 RM)` / `(g P1 P2 RM)`
fn triple(x: &Sx) -> (f64, f64, f64) {
    let v = x.items().unwrap();
    (v[1].float().unwrap(), v[2].float().unwrap(), v[3].float().unwrap())
}

/// What a case may add to the plain `new(..)` + `init` + `execute`: the public constructor to build the
/// component with, and an overwrite of the parameter states between `init` and `execute`.
#[derive(Clone, Copy, Default)]
pub struct Extra<'a> { ctor: Option<&'a str>, adapt: Option<(&'a str, Option<f64>, Option<f64>)> }

pub fn run_component(name: &str, a: &[Sx]) -> String { run_component_x(name, a, Extra::default()) }

pub fn run_component_x(name: &str, a: &[Sx], x: Extra) -> String {
    let dim_of = |n: usize| n.max(1);
    let ctor = x.ctor.unwrap_or("new");
    let (mode, ads, adr) = x.adapt.unwrap_or(("set", None, None));
    let bad_ctor = || -> ! { panic!("constructor {ctor} does not exist for {name}") };
    match name {
        // (via CTOR inner): the inner case built through the named public constructor
        "via" => {
            let (inner, ia) = a[1].head().unwrap();
            run_component_x(inner, ia, Extra { ctor: Some(a[0].atom().unwrap()), ..x })
        }
        // (adapt MODE (set S R) inner): S / R overwrite MutationStrength / MutationRate after init
        "adapt" => {
            let (inner, ia) = a[2].head().unwrap();
            let set = a[1].items().unwrap();
            run_component_x(inner, ia, Extra { adapt: Some((a[0].atom().unwrap(), optf(&set[1]), optf(&set[2]))), ..x })
        }
        // (mutdefault KIND FAIL pops..): `mutation()` with a user-side `Mutation`; populations bottom first
        "mutdefault" => {
            let m = TagMutation { kind: a[0].nat().unwrap(), fail: a[1].nat().unwrap() as usize };
            let pops: Vec<Vec<Vec<usize>>> = a[2..].iter().map(|p| pop_of(p, us)).collect();
            let problem = Tsp::new(vec![]);
            catch(|| {
                let mut state: State<Tsp> = State::new();
                state.insert(Populations::<Tsp>::new());
                state.insert(Random::new(0));
                for p in pops {
                    state.populations_mut().push(p.into_iter().map(|s| Individual::new(s, SingleObjective::try_from(1.0).unwrap())).collect());
                }
                let ok = mutation(&m, &problem, &mut state).is_ok();
                let mut stack = vec![];   // top first
                loop {
                    let Some(top) = state.populations_mut().try_pop() else { break };
                    stack.push(tagged("pop", top.iter().map(|i| vs(i.solution()))));
                }
                list([if ok { "ok".to_string() } else { "err".to_string() }, tagged("stack", stack)])
            }).unwrap_or_else(|| "panic".into())
        }
        "state" => run_state_case(a),
        "mut-normal" | "mut-uniform" => {
            let (p1, rm) = (a[0].float().unwrap(), a[1].float().unwrap());
            let pop = pop_of(&a[3], fl);
            let problem = Sphere::new(dim_of(pop.first().map_or(0, |s| s.len())), -5.0, 5.0, 0.0);
            let c: Box<dyn Component<Sphere>> = match (name, ctor) {
                ("mut-normal", "new") => NormalMutation::new(p1, rm),
                ("mut-normal", "new_dev") => NormalMutation::new_dev(p1),
                ("mut-normal", "new_with_id") => NormalMutation::<mahf::identifier::Global>::new_with_id(p1, rm),
                ("mut-normal", "from_params") => Box::new(NormalMutation::<mahf::identifier::Global>::from_params(p1, rm)),
                ("mut-uniform", "new") => UniformMutation::new(p1, rm),
                ("mut-uniform", "new_bound") => UniformMutation::new_bound(p1),
                ("mut-uniform", "new_with_id") => UniformMutation::<mahf::identifier::Global>::new_with_id(p1, rm),
                ("mut-uniform", "from_params") => Box::new(UniformMutation::<mahf::identifier::Global>::from_params(p1, rm)),
                _ => bad_ctor(),
            };
            if name == "mut-normal" {
                run_adapted(&problem, Ok(c), rng_of(&a[2]), vec![pop], |s| fs(s), |st| adapt_states::<_, NormalMutation>(st, mode, ads, adr))
            } else {
                run_adapted(&problem, Ok(c), rng_of(&a[2]), vec![pop], |s| fs(s), |st| adapt_states::<_, UniformMutation>(st, mode, ads, adr))
            }
        }
        "mut-spread" => {
            let (lo, hi, rm) = (a[0].float().unwrap(), a[1].float().unwrap(), a[2].float().unwrap());
            let pop = pop_of(&a[4], fl);
            let problem = Sphere::new(pop.first().map_or(0, |s| s.len()), lo, hi, 0.0);
            let c: Box<dyn Component<Sphere>> = match ctor {
                "new" => PartialRandomSpread::new(rm),
                "new_full" => PartialRandomSpread::new_full(),
                "new_with_id" => PartialRandomSpread::<mahf::identifier::Global>::new_with_id(rm),
                "from_params" => Box::new(PartialRandomSpread::<mahf::identifier::Global>::from_params(rm)),
                _ => bad_ctor(),
            };
            run_adapted(&problem, Ok(c), rng_of(&a[3]), vec![pop], |s| fs(s), |st| adapt_states::<_, PartialRandomSpread>(st, mode, None, adr))
        }
        "mut-bitflip" | "mut-bits" => {
            let (p, rm) = (a[0].float().unwrap(), a[1].float().unwrap());
            let pop = pop_of(&a[3], bl);
            let problem = OneMax::new(pop.first().map_or(0, |s| s.len()));
            let c: Box<dyn Component<OneMax>> = match (name, ctor) {
                ("mut-bitflip", "new") => BitFlipMutation::new(rm),
                ("mut-bitflip", "new_with_id") => BitFlipMutation::<mahf::identifier::Global>::new_with_id(rm),
                ("mut-bitflip", "from_params") => Box::new(BitFlipMutation::<mahf::identifier::Global>::from_params(rm)),
                ("mut-bits", "new") => PartialRandomBitstring::new(p, rm),
                ("mut-bits", "new_uniform") => PartialRandomBitstring::new_uniform(rm),
                ("mut-bits", "new_full") => PartialRandomBitstring::new_full(p),
                ("mut-bits", "new_uniform_full") => PartialRandomBitstring::new_uniform_full(),
                ("mut-bits", "new_with_id") => PartialRandomBitstring::<mahf::identifier::Global>::new_with_id(p, rm),
                ("mut-bits", "from_params") => Box::new(PartialRandomBitstring::<mahf::identifier::Global>::from_params(p, rm)),
                _ => bad_ctor(),
            };
            if name == "mut-bitflip" {
                run_adapted(&problem, Ok(c), rng_of(&a[2]), vec![pop], |s| bs(s), |st| adapt_states::<_, BitFlipMutation>(st, mode, None, adr))
            } else {
                run_adapted(&problem, Ok(c), rng_of(&a[2]), vec![pop], |s| bs(s), |st| adapt_states::<_, PartialRandomBitstring>(st, mode, None, adr))
            }
        }
        "idm" => {
            // instance with identifier `A` alone, or `A` next to the `Global` instance of the same component
            let kind = a[0].atom().unwrap();
            let both = a[1].atom().unwrap() == "both";
            let (a1, a2, arm) = triple(&a[2]);
            let (g1, g2, grm) = triple(&a[3]);
            match kind {
                "normal" | "uniform" | "spread" => {
                    let pop = pop_of(&a[5], fl);
                    let dim = pop.first().map_or(0, |s| s.len());
                    let problem = if kind == "spread" { Sphere::new(dim, a1, a2, 0.0) } else { Sphere::new(dim.max(1), -5.0, 5.0, 0.0) };
                    let mut comps: Vec<Box<dyn Component<Sphere>>> = vec![match kind {
                        "normal" => NormalMutation::<A>::new_with_id(a1, arm),
                        "uniform" => UniformMutation::<A>::new_with_id(a1, arm),
                        _ => PartialRandomSpread::<A>::new_with_id(arm),
                    }];
                    if both { comps.push(match kind {
                        "normal" => NormalMutation::new(g1, grm),
                        "uniform" => UniformMutation::new(g1, grm),
                        _ => PartialRandomSpread::new(grm),
                    }); }
                    let _ = g2;
                    run_phases(&problem, comps, rng_of(&a[4]), pop, |s| fs(s))
                }
                "bitflip" | "bits" => {
                    let pop = pop_of(&a[5], bl);
                    let problem = OneMax::new(pop.first().map_or(0, |s| s.len()));
                    let mut comps: Vec<Box<dyn Component<OneMax>>> = vec![if kind == "bitflip" {
                        BitFlipMutation::<A>::new_with_id(arm) } else { PartialRandomBitstring::<A>::new_with_id(a1, arm) }];
                    if both { comps.push(if kind == "bitflip" { BitFlipMutation::new(grm) } else { PartialRandomBitstring::new(g1, grm) }); }
                    run_phases(&problem, comps, rng_of(&a[4]), pop, |s| bs(s))
                }
                _ => {
                    let pop = pop_of(&a[5], us);
                    let n = pop.first().map_or(0, |s| s.len());
                    let problem = Tsp::new(vec![vec![1.0; n]; n]);
                    let mut comps: Vec<Box<dyn Component<Tsp>>> = vec![ScrambleMutation::<A>::new_with_id(arm)];
                    if both { comps.push(ScrambleMutation::new(grm)); }
                    run_phases(&problem, comps, rng_of(&a[4]), pop, |s| vs(s))
                }
            }
        }
        "pmut-swap" | "pmut-scramble" | "pmut-inversion" | "pmut-insertion" | "pmut-transloc" => {
            let pop = pop_of(&a[2], us);
            let n = pop.first().map_or(0, |s| s.len());
            let problem = Tsp::new(vec![vec![1.0; n]; n]);
            let c: Result<Box<dyn Component<Tsp>>, ()> = match (name, ctor) {
                ("pmut-swap", "new") => SwapMutation::new(a[0].nat().unwrap() as u32).map_err(|_| ()),
                ("pmut-swap", "from_params") => SwapMutation::from_params(a[0].nat().unwrap() as u32).map(|c| Box::new(c) as Box<dyn Component<Tsp>>).map_err(|_| ()),
                ("pmut-scramble", "new") => Ok(ScrambleMutation::new(a[0].float().unwrap())),
                ("pmut-scramble", "new_full") => Ok(ScrambleMutation::new_full()),
                ("pmut-scramble", "new_with_id") => Ok(ScrambleMutation::<mahf::identifier::Global>::new_with_id(a[0].float().unwrap())),
                ("pmut-scramble", "from_params") => Ok(Box::new(ScrambleMutation::<mahf::identifier::Global>::from_params(a[0].float().unwrap()))),
                ("pmut-inversion", "new") => Ok(InversionMutation::new::<Tsp, usize>()),
                ("pmut-inversion", "from_params") => Ok(Box::new(InversionMutation::from_params())),
                ("pmut-insertion", "new") => Ok(InsertionMutation::new()),
                ("pmut-insertion", "from_params") => Ok(Box::new(InsertionMutation::from_params())),
                ("pmut-transloc", "new") => Ok(TranslocationMutation::new()),
                ("pmut-transloc", "from_params") => Ok(Box::new(TranslocationMutation::from_params())),
                _ => bad_ctor(),
            };
            run_adapted(&problem, c, rng_of(&a[1]), vec![pop], |s| vs(s), |st| {
                if name == "pmut-scramble" { adapt_states::<_, ScrambleMutation>(st, mode, None, adr) }
            })
        }
        "rec-npoint" | "rec-uniform" | "rec-cycle" => {
            let n = a[0].nat().unwrap() as usize;
            let (pc, both) = (a[1].float().unwrap(), a[2].atom().unwrap() == "t");
            let pop = pop_of(&a[4], us);
            let d = pop.first().map_or(0, |s| s.len());
            let problem = Tsp::new(vec![vec![1.0; d]; d]);
            let c: Box<dyn Component<Tsp>> = match (name, ctor) {
                ("rec-npoint", "new") => NPointCrossover::new(n, pc, both),
                ("rec-npoint", "new_insert_single") => NPointCrossover::new_insert_single(n, pc),
                ("rec-npoint", "new_insert_both") => NPointCrossover::new_insert_both(n, pc),
                ("rec-npoint", "from_params") => Box::new(NPointCrossover::from_params(n, pc, both)),
                ("rec-uniform", "new") => UniformCrossover::new(pc, both),
                ("rec-uniform", "new_insert_single") => UniformCrossover::new_insert_single(pc),
                ("rec-uniform", "new_insert_both") => UniformCrossover::new_insert_both(pc),
                ("rec-uniform", "from_params") => Box::new(UniformCrossover::from_params(pc, both)),
                ("rec-cycle", "new") => CycleCrossover::new(pc, both),
                ("rec-cycle", "new_insert_single") => CycleCrossover::new_insert_single(pc),
                ("rec-cycle", "new_insert_both") => CycleCrossover::new_insert_both(pc),
                ("rec-cycle", "from_params") => Box::new(CycleCrossover::from_params(pc, both)),
                _ => bad_ctor(),
            };
            run(&problem, Ok(c), rng_of(&a[3]), vec![pop], |s| vs(s))
        }
        "rec-arith" => {
            let (pc, both) = (a[1].float().unwrap(), a[2].atom().unwrap() == "t");
            let pop = pop_of(&a[4], fl);
            let problem = Sphere::new(pop.first().map_or(0, |s| s.len()), -5.0, 5.0, 0.0);
            let c: Box<dyn Component<Sphere>> = match ctor {
                "new" => ArithmeticCrossover::new(pc, both),
                "new_insert_single" => ArithmeticCrossover::new_insert_single(pc),
                "new_insert_both" => ArithmeticCrossover::new_insert_both(pc),
                "from_params" => Box::new(ArithmeticCrossover::from_params(pc, both)),
                _ => bad_ctor(),
            };
            run(&problem, Ok(c), rng_of(&a[3]), vec![pop], |s| fs(s))
        }
        "demut" => {
            let (y, f) = (a[0].nat().unwrap() as u32, a[1].float().unwrap());
            let pop = pop_of(&a[2], fl);
            let problem = Sphere::new(pop.first().map_or(0, |s| s.len()), -5.0, 5.0, 0.0);
            let c: Result<Box<dyn Component<Sphere>>, ()> = match ctor {
                "new" => DEMutation::new(y, f).map_err(|_| ()),
                "from_params" => DEMutation::from_params(y, f).map(|c| Box::new(c) as Box<dyn Component<Sphere>>).map_err(|_| ()),
                _ => bad_ctor(),
            };
            run(&problem, c, Random::new(0), vec![pop], |s| fs(s))
        }
        "decx" => {
            let kind = a[0].atom().unwrap();
            let pc = a[1].float().unwrap();
            let dim = a[3].nat().unwrap() as usize;
            let pops: Vec<Vec<Vec<f64>>> = a[4..].iter().map(|p| pop_of(p, fl)).collect();   // bottom first: base, then mut
            let problem = Sphere::new(dim, -5.0, 5.0, 0.0);
            let c: Box<dyn Component<Sphere>> = match (kind, ctor) {
                ("bin", "new") => DEBinomialCrossover::new(pc),
                ("bin", "from_params") => Box::new(DEBinomialCrossover::from_params(pc)),
                ("exp", "new") => DEExponentialCrossover::new(pc),
                ("exp", "from_params") => Box::new(DEExponentialCrossover::from_params(pc)),
                _ => bad_ctor(),
            };
            run(&problem, Ok(c), rng_of(&a[2]), pops, |s| fs(s))
        }
        _ => panic!("unknown case kind {name}"),
    }
}

fn unit(x: f64) -> bool { (0.0..=1.0).contains(&x) }
fn strength(x: f64) -> bool { x >= 0.0 && x.is_finite() }

/// `Base@x!malformed` + `::ctor` / `@adapted` → `Base::ctor@x!malformed`.
fn decorate(site: &str, deco: &str) -> String {
    let cut = site.find(|c| c == '@' || c == '!').unwrap_or(site.len());
    format!("{}{}{}", &site[..cut], deco, &site[cut..])
}

/// The arguments a constructor does not take are ignored: validity is judged on the stored values.
fn via_subst(inner: &str, ctor: &str, ia: &mut [Sx]) {
    let one = Sx::A(fx(1.0));
    let half = Sx::A(fx(0.5));
    match (inner, ctor) {
        ("mut-normal", "new_dev") | ("mut-uniform", "new_bound") => ia[1] = one,
        ("mut-spread", "new_full") => ia[2] = one,
        ("pmut-scramble", "new_full") => ia[0] = one,
        ("mut-bits", "new_full") => ia[1] = one,
        ("mut-bits", "new_uniform") => ia[0] = half,
        ("mut-bits", "new_uniform_full") => { ia[0] = half; ia[1] = one }
        _ => {}
    }
}

pub fn site_of(name: &str, a: &[Sx]) -> String {
    match name {
        "via" => {
            let ctor = a[0].atom().unwrap();
            let (inner, ia) = a[1].head().unwrap();
            let mut ia: Vec<Sx> = ia.to_vec();
            via_subst(inner, ctor, &mut ia);
            return decorate(&site_of(inner, &ia), &format!("::{ctor}"));
        }
        "adapt" => {
            let set = a[1].items().unwrap();
            let (mut inner, ia) = a[2].head().unwrap();
            let mut ia: Vec<Sx> = ia.to_vec();
            let mut deco = "@adapted".to_string();
            if inner == "via" {
                let ctor = ia[0].atom().unwrap().to_string();
                let (i2, a2) = ia[1].head().unwrap();
                let mut a2: Vec<Sx> = a2.to_vec();
                via_subst(i2, &ctor, &mut a2);
                deco = format!("::{ctor}@adapted");
                inner = match i2 { "mut-normal" => "mut-normal", "mut-uniform" => "mut-uniform", "mut-spread" => "mut-spread",
                                   "mut-bitflip" => "mut-bitflip", "mut-bits" => "mut-bits", _ => "pmut-scramble" };
                ia = a2;
            }
            let (spos, rpos) = match inner {
                "mut-normal" | "mut-uniform" => (Some(0), 1),
                "mut-spread" => (None, 2),
                "mut-bitflip" | "mut-bits" => (None, 1),
                _ => (None, 0),
            };
            if let (Some(i), Some(v)) = (spos, optf(&set[1])) { ia[i] = Sx::A(fx(v)); }
            if let Some(v) = optf(&set[2]) { ia[rpos] = Sx::A(fx(v)); }
            return decorate(&site_of(inner, &ia), &deco);
        }
        "mutdefault" => return "mutation-default".into(),
        "state" => return state_site(a),
        _ => {}
    }
    let zero = |i: usize| a[i].atom() == Some("zero");
    let dim = |i: usize| a[i].head().map_or(0, |(_, s)| s.first().map_or(0, |x| x.items().map_or(0, |v| v.len())));
    let (site, ok): (&str, bool) = match name {
        "mut-normal" => ("NormalMutation", strength(a[0].float().unwrap()) && unit(a[1].float().unwrap())),
        "mut-uniform" => ("UniformMutation", strength(a[0].float().unwrap()) && unit(a[1].float().unwrap())),
        "idm" => {
            let (a1, _, arm) = triple(&a[2]);
            let (g1, _, grm) = triple(&a[3]);
            let kind = a[0].atom().unwrap();
            let st = |x: f64| !(kind == "normal" || kind == "uniform") || strength(x);
            (match kind { "normal" => "NormalMutation@id", "uniform" => "UniformMutation@id", "spread" => "PartialRandomSpread@id",
                          "bitflip" => "BitFlipMutation@id", "bits" => "PartialRandomBitstring@id", _ => "ScrambleMutation@id" },
             st(a1) && st(g1) && unit(arm) && unit(grm))
        }
        "mut-spread" => ("PartialRandomSpread", unit(a[2].float().unwrap())),
        "mut-bitflip" => ("BitFlipMutation", unit(a[1].float().unwrap())),
        "mut-bits" => ("PartialRandomBitstring", unit(a[0].float().unwrap()) && unit(a[1].float().unwrap())),
        "pmut-swap" => { let k = a[0].nat().unwrap() as usize; ("SwapMutation", k >= 2 && (k <= dim(2) || a[2].items().map_or(true, |v| v.len() <= 1))) }
        "pmut-scramble" => ("ScrambleMutation", unit(a[0].float().unwrap())),
        "pmut-inversion" => ("InversionMutation", true),
        "pmut-insertion" => ("InsertionMutation", !(dim(2) == 0 && a[2].head().map_or(false, |(_, v)| !v.is_empty()))),
        "pmut-transloc" => ("TranslocationMutation", true),
        "rec-npoint" => { let n = a[0].nat().unwrap() as usize;
            (if n >= 1 && n < dim(4) { "NPointCrossover" } else { "NPointCrossover@n-out-of-range" }, true) }
        "rec-uniform" => ("UniformCrossover", true),
        "rec-cycle" => ("CycleCrossover", true),
        "rec-arith" => ("ArithmeticCrossover", true),
        "demut" => { let y = a[0].nat().unwrap(); let f = a[1].float().unwrap(); ("DEMutation", (y == 1 || y == 2) && f > 0.0 && f <= 2.0) }
        "decx" => (if a[0].atom() == Some("bin") { "DEBinomialCrossover" } else { "DEExponentialCrossover" }, a.len() >= 6 && a[3].nat() != Some(0)),
        _ => (name, true),
    };
    let z = match name {
        "rec-npoint" | "rec-uniform" | "rec-cycle" | "rec-arith" => zero(3),
        _ => false,
    };
    format!("{}{}{}", site, if z { "@zero-draw" } else { "" }, if ok { "" } else { "!malformed" })
}

// ------------------------------------------------------------------ generators
struct G<'a> { rng: &'a mut Sm }
impl<'a> G<'a> {
    fn reals(&mut self, n: usize, dim: usize) -> Vec<Vec<f64>> {
        // distinct values: a different fractional part for every coordinate of the case
        let mut k = 0.0;
        (0..n).map(|_| (0..dim).map(|_| { k += 1.0; (self.rng.unit() * 8.0 - 4.0).floor() + k / 1024.0 }).collect()).collect()
    }
    fn bits(&mut self, n: usize, dim: usize) -> Vec<Vec<bool>> {
        (0..n).map(|_| (0..dim).map(|_| self.rng.chance(1, 2)).collect()).collect()
    }
    /// every gene of the case is a distinct tag: parent j, position i ↦ 100*(j+1)+i
    fn tagged_vecs(&mut self, n: usize, dim: usize) -> Vec<Vec<usize>> {
        (0..n).map(|j| (0..dim).map(|i| 100 * (j + 1) + i).collect()).collect()
    }
    fn perms(&mut self, n: usize, dim: usize) -> Vec<Vec<usize>> {
        (0..n).map(|_| {
            let mut p: Vec<usize> = (0..dim).collect();
            for i in (1..dim).rev() { p.swap(i, self.rng.below(i as u64 + 1) as usize); }
            p
        }).collect()
    }
    fn seed(&mut self) -> u64 { self.rng.next() % 1_000_000 }
}
fn pf(p: &[Vec<f64>]) -> String { tagged("pop", p.iter().map(|s| fs(s))) }
fn pu(p: &[Vec<usize>]) -> String { tagged("pop", p.iter().map(|s| vs(s))) }
fn pb(p: &[Vec<bool>]) -> String { tagged("pop", p.iter().map(|s| bs(s))) }

pub fn generate(a: &Args, rng: &mut Sm, emit: &mut dyn FnMut(String)) {
    let mut g = G { rng };
    let reps = if a.thorough { 12 } else { 3 };
    let rates = [0.0, 0.5, 1.0];
    let probs = [0.0, 0.3, 1.0];
    for _ in 0..reps {
        for dim in 1..=8usize {
            for &rm in &rates {
                let n = g.rng.range(0, 4) as usize;
                // real / bit mutations
                let p = g.reals(n, dim);
                emit(format!("(mut-normal {} {} {} {})", fx(*g.rng.pick(&[0.0, 0.1, 1.0, 25.0])), fx(rm), g.seed(), pf(&p)));
                emit(format!("(mut-uniform {} {} {} {})", fx(*g.rng.pick(&[0.0, 0.1, 1.0, 25.0])), fx(rm), g.seed(), pf(&p)));
                let (lo, hi) = *g.rng.pick(&[(-5.0, 5.0), (0.0, 10.0), (-5.0, -2.0), (1e-3, 1e6)]);
                emit(format!("(mut-spread {} {} {} {} {})", fx(lo), fx(hi), fx(rm), g.seed(), pf(&p)));
                let q = g.bits(n, dim);
                emit(format!("(mut-bitflip {} {} {} {})", fx(0.5), fx(rm), g.seed(), pb(&q)));
                for pr in [0.0, 0.5, 1.0] {
                    emit(format!("(mut-bits {} {} {} {})", fx(pr), fx(rm), g.seed(), pb(&q)));
                }
                // scramble
                let t = g.tagged_vecs(n, dim);
                emit(format!("(pmut-scramble {} {} {})", fx(rm), g.seed(), pu(&t)));
            }
            // identified instances (`new_with_id::<A>`): alone, and next to the Global instance with a
            // DIFFERENT rate / strength — each instance must follow its own parameters
            for (arm, grm) in [(0.0, 1.0), (1.0, 0.0), (0.5, 0.5)] {
                let n = g.rng.range(1, 3) as usize;
                let p = g.reals(n, dim);
                let q = g.bits(n, dim);
                let t = g.tagged_vecs(n, dim);
                for mode in ["alone", "both"] {
                    emit(format!("(idm normal {} (a {} {} {}) (g {} {} {}) {} {})", mode, fx(0.1), fx(0.0), fx(arm), fx(25.0), fx(0.0), fx(grm), g.seed(), pf(&p)));
                    emit(format!("(idm uniform {} (a {} {} {}) (g {} {} {}) {} {})", mode, fx(0.1), fx(0.0), fx(arm), fx(25.0), fx(0.0), fx(grm), g.seed(), pf(&p)));
                    emit(format!("(idm spread {} (a {} {} {}) (g {} {} {}) {} {})", mode, fx(-5.0), fx(5.0), fx(arm), fx(-5.0), fx(5.0), fx(grm), g.seed(), pf(&p)));
                    emit(format!("(idm bitflip {} (a {} {} {}) (g {} {} {}) {} {})", mode, fx(0.5), fx(0.0), fx(arm), fx(0.5), fx(0.0), fx(grm), g.seed(), pb(&q)));
                    emit(format!("(idm bits {} (a {} {} {}) (g {} {} {}) {} {})", mode, fx(1.0), fx(0.0), fx(arm), fx(0.0), fx(0.0), fx(grm), g.seed(), pb(&q)));
                    emit(format!("(idm scramble {} (a {} {} {}) (g {} {} {}) {} {})", mode, fx(0.0), fx(0.0), fx(arm), fx(0.0), fx(0.0), fx(grm), g.seed(), pu(&t)));
                }
            }
            // permutation mutations without a rate
            for _ in 0..4 {
                let n = g.rng.range(0, 4) as usize;
                let t = g.tagged_vecs(n, dim);
                emit(format!("(pmut-inversion 0 {} {})", g.seed(), pu(&t)));
                emit(format!("(pmut-insertion 0 {} {})", g.seed(), pu(&t)));
                emit(format!("(pmut-transloc 0 {} {})", g.seed(), pu(&t)));
            }
            for k in 0..=dim + 1 {
                let n = g.rng.range(0, 3) as usize;
                let t = g.tagged_vecs(n, dim);
                emit(format!("(pmut-swap {} {} {})", k, g.seed(), pu(&t)));
            }
            // recombination
            for &pc in &probs { for both in [true, false] {
                for n in [0usize, 1, 2, 3, 4, 5, 6, 7] {
                    if !a.thorough && n > 1 && (n + dim) % 3 == 0 { continue; }
                    let t = g.tagged_vecs(n, dim);
                    let cuts = g.rng.range(0, dim as u64 + 1) as usize;
                    emit(format!("(rec-npoint {} {} {} {} {})", cuts, fx(pc), b(both), g.seed(), pu(&t)));
                    if dim >= 2 {
                        emit(format!("(rec-npoint {} {} {} {} {})", g.rng.range(1, dim as u64 - 1), fx(pc), b(both), g.seed(), pu(&t)));
                    }
                    emit(format!("(rec-uniform 0 {} {} {} {})", fx(pc), b(both), g.seed(), pu(&t)));
                    let pp = g.perms(n, dim);
                    emit(format!("(rec-cycle 0 {} {} {} {})", fx(pc), b(both), g.seed(), pu(&pp)));
                    let r = g.reals(n, dim);
                    emit(format!("(rec-arith 0 {} {} {} {})", fx(pc), b(both), g.seed(), pf(&r)));
                }
            } }
            // the smallest possible draw (all-zero generator): the gate `gen::<f64>() < pc` must not
            // cross at pc = 0 and must cross at every pc > 0
            for pc in [0.0, 0.3] { for both in [true, false] { for n in [2usize, 3, 4] {
                let t = g.tagged_vecs(n, dim);
                if dim >= 2 { emit(format!("(rec-npoint 1 {} {} zero {})", fx(pc), b(both), pu(&t))); }
                emit(format!("(rec-uniform 0 {} {} zero {})", fx(pc), b(both), pu(&t)));
                let r = g.reals(n, dim);
                emit(format!("(rec-arith 0 {} {} zero {})", fx(pc), b(both), pf(&r)));
                let pp: Vec<Vec<usize>> = (0..n).map(|j| (0..dim).map(|i| (i + j) % dim).collect()).collect();
                emit(format!("(rec-cycle 0 {} {} zero {})", fx(pc), b(both), pu(&pp)));
            } } }
            // DE mutation: every y, population sizes 0..11 (multiples of 2y+1 and not)
            for y in [1u64, 2] { for n in 0..=11usize {
                let f = *g.rng.pick(&[0.5, 1.0, 2.0, 0.25]);
                let r = g.reals(n, dim);
                emit(format!("(demut {} {} {})", y, fx(f), pf(&r)));
            } }
            // DE crossovers
            for kind in ["bin", "exp"] { for &pc in &probs { for n in [0usize, 1, 3] {
                let base = g.reals(n, dim);
                let mutant: Vec<Vec<f64>> = g.reals(n, dim).into_iter().map(|s| s.into_iter().map(|x| x + 0.5).collect()).collect();
                emit(format!("(decx {} {} {} {} {} {})", kind, fx(pc), g.seed(), dim, pf(&base), pf(&mutant)));
            } } }
        }
    }
    generate_ext(a, &mut g, emit);
    generate_state(a, &mut g, emit);
    // parameter values outside the documented domain (never a violation; the model must still agree)
    let p = g.reals(2, 3);
    let q = g.bits(2, 3);
    let t = g.tagged_vecs(2, 3);
    for bad in [-0.5, 1.5] {
        emit(format!("(mut-normal {} {} 1 {})", fx(1.0), fx(bad), pf(&p)));
        emit(format!("(mut-uniform {} {} 1 {})", fx(1.0), fx(bad), pf(&p)));
        emit(format!("(mut-spread {} {} {} 1 {})", fx(-5.0), fx(5.0), fx(bad), pf(&p)));
        emit(format!("(mut-bitflip {} {} 1 {})", fx(0.5), fx(bad), pb(&q)));
        emit(format!("(mut-bits {} {} 1 {})", fx(0.5), fx(bad), pb(&q)));
        emit(format!("(pmut-scramble {} 1 {})", fx(bad), pu(&t)));
    }
    emit(format!("(mut-uniform {} {} 1 {})", fx(-1.0), fx(0.5), pf(&p)));
    // corners of the guards: negative / infinite / NaN strength and rate
    for st in [-1.0, f64::INFINITY, f64::NEG_INFINITY, f64::NAN] { for rm in [0.0, 0.5, 1.0] {
        emit(format!("(mut-normal {} {} 1 {})", fx(st), fx(rm), pf(&p)));
        emit(format!("(mut-uniform {} {} 1 {})", fx(st), fx(rm), pf(&p)));
    } }
    for bad in [f64::NAN, f64::INFINITY, f64::NEG_INFINITY, -0.0] {
        emit(format!("(mut-normal {} {} 1 {})", fx(1.0), fx(bad), pf(&p)));
        emit(format!("(mut-uniform {} {} 1 {})", fx(1.0), fx(bad), pf(&p)));
        emit(format!("(mut-spread {} {} {} 1 {})", fx(-5.0), fx(5.0), fx(bad), pf(&p)));
        emit(format!("(mut-bitflip {} {} 1 {})", fx(0.5), fx(bad), pb(&q)));
        emit(format!("(mut-bits {} {} 1 {})", fx(0.5), fx(bad), pb(&q)));
        emit(format!("(pmut-scramble {} 1 {})", fx(bad), pu(&t)));
    }
    for f in [f64::NAN, f64::INFINITY] { emit(format!("(demut 1 {} {})", fx(f), pf(&g.reals(3, 2)))); }
    for (y, f) in [(0u64, 1.0), (3, 1.0), (1, -0.5), (1, 2.5), (1, 0.0)] {
        emit(format!("(demut {} {} {})", y, fx(f), pf(&g.reals(3, 2))));
    }
    // DE crossover with fewer than two populations
    for kind in ["bin", "exp"] {
        emit(format!("(decx {} {} 1 3 {})", kind, fx(0.5), pf(&g.reals(2, 3))));
    }
}

/// Extensions: run-time adapted parameters, every public constructor, `mutation()`, dimension 0, large sizes.
fn generate_ext(a: &Args, g: &mut G, emit: &mut dyn FnMut(String)) {
    let reps = if a.thorough { 6 } else { 1 };
    let of = |x: Option<f64>| x.map_or("-".to_string(), fx);
    // ---- (1) parameters overwritten in the state between init and execute: the STATE governs
    // (constructor rate, adapted rate): 1→0 must be the identity, 0→1 must fire everywhere, invalid→valid must
    // run, valid→invalid must err; likewise strength / bound
    let rate_pairs: [(f64, Option<f64>); 8] = [(1.0, Some(0.0)), (0.0, Some(1.0)), (0.5, Some(0.0)), (0.0, Some(0.5)),
        (1.5, Some(0.5)), (0.5, Some(1.5)), (f64::NAN, Some(1.0)), (0.5, None)];
    for _ in 0..reps { for dim in [1usize, 2, 5, 8] { for mode in ["set", "insert"] {
        for &(crm, arm) in &rate_pairs {
            let n = g.rng.range(1, 4) as usize;
            let (p, q, t) = (g.reals(n, dim), g.bits(n, dim), g.tagged_vecs(n, dim));
            let set = format!("(set - {})", of(arm));
            emit(format!("(adapt {mode} {set} (mut-normal {} {} {} {}))", fx(0.1), fx(crm), g.seed(), pf(&p)));
            emit(format!("(adapt {mode} {set} (mut-uniform {} {} {} {}))", fx(0.1), fx(crm), g.seed(), pf(&p)));
            emit(format!("(adapt {mode} {set} (mut-spread {} {} {} {} {}))", fx(-5.0), fx(5.0), fx(crm), g.seed(), pf(&p)));
            emit(format!("(adapt {mode} {set} (mut-bitflip {} {} {} {}))", fx(0.5), fx(crm), g.seed(), pb(&q)));
            emit(format!("(adapt {mode} {set} (mut-bits {} {} {} {}))", fx(*g.rng.pick(&[0.0, 1.0, 0.5])), fx(crm), g.seed(), pb(&q)));
            emit(format!("(adapt {mode} {set} (pmut-scramble {} {} {}))", fx(crm), g.seed(), pu(&t)));
        }
        // strength / bound: (constructor, adapted)
        for &(cs, as_) in &[(25.0, Some(0.0)), (0.0, Some(25.0)), (25.0, Some(0.1)), (-1.0, Some(0.5)), (0.5, Some(-1.0)),
                            (f64::INFINITY, Some(1.0)), (1.0, Some(f64::NAN)), (1.0, None)] {
            let n = g.rng.range(1, 3) as usize;
            let p = g.reals(n, dim);
            for arm in [None, Some(1.0)] {
                let set = format!("(set {} {})", of(as_), of(arm));
                emit(format!("(adapt {mode} {set} (mut-normal {} {} {} {}))", fx(cs), fx(1.0), g.seed(), pf(&p)));
                emit(format!("(adapt {mode} {set} (mut-uniform {} {} {} {}))", fx(cs), fx(1.0), g.seed(), pf(&p)));
            }
        }
    } } }
    // ---- (2) every public constructor; arguments a constructor does not take carry a DIFFERENT value
    for _ in 0..reps { for dim in [1usize, 3, 7] {
        let n = g.rng.range(1, 4) as usize;
        let (p, q, t) = (g.reals(n, dim), g.bits(n, dim), g.tagged_vecs(n, dim));
        for rm in [0.0, 0.5, 1.0] {
            for c in ["new_dev", "from_params", "new_with_id"] { emit(format!("(via {c} (mut-normal {} {} {} {}))", fx(0.1), fx(rm), g.seed(), pf(&p))); }
            for c in ["new_bound", "from_params", "new_with_id"] { emit(format!("(via {c} (mut-uniform {} {} {} {}))", fx(0.1), fx(rm), g.seed(), pf(&p))); }
            for c in ["new_full", "from_params", "new_with_id"] { emit(format!("(via {c} (mut-spread {} {} {} {} {}))", fx(-5.0), fx(5.0), fx(rm), g.seed(), pf(&p))); }
            for c in ["from_params", "new_with_id"] { emit(format!("(via {c} (mut-bitflip {} {} {} {}))", fx(0.5), fx(rm), g.seed(), pb(&q))); }
            for c in ["new_uniform", "new_full", "new_uniform_full", "from_params", "new_with_id"] { for pr in [0.0, 1.0] {
                emit(format!("(via {c} (mut-bits {} {} {} {}))", fx(pr), fx(rm), g.seed(), pb(&q)));
            } }
            for c in ["new_full", "from_params", "new_with_id"] { emit(format!("(via {c} (pmut-scramble {} {} {}))", fx(rm), g.seed(), pu(&t))); }
        }
        // a "full" constructor, then the rate adapted down to zero: identity
        emit(format!("(adapt set (set - {}) (via new_full (mut-spread {} {} {} {} {})))", fx(0.0), fx(-5.0), fx(5.0), fx(0.5), g.seed(), pf(&p)));
        emit(format!("(adapt set (set - {}) (via new_dev (mut-normal {} {} {} {})))", fx(0.0), fx(1.0), fx(0.5), g.seed(), pf(&p)));
        emit(format!("(adapt insert (set - {}) (via new_uniform_full (mut-bits {} {} {} {})))", fx(0.0), fx(1.0), fx(0.5), g.seed(), pb(&q)));
        for c in ["from_params"] {
            emit(format!("(via {c} (pmut-swap {} {} {}))", 2.min(dim).max(2), g.seed(), pu(&t)));
            emit(format!("(via {c} (pmut-swap 1 {} {}))", g.seed(), pu(&t)));
            emit(format!("(via {c} (pmut-inversion 0 {} {}))", g.seed(), pu(&t)));
            emit(format!("(via {c} (pmut-insertion 0 {} {}))", g.seed(), pu(&t)));
            emit(format!("(via {c} (pmut-transloc 0 {} {}))", g.seed(), pu(&t)));
            emit(format!("(via {c} (demut 1 {} {}))", fx(0.5), pf(&g.reals(3, dim))));
            emit(format!("(via {c} (demut 3 {} {}))", fx(0.5), pf(&g.reals(3, dim))));
            for kind in ["bin", "exp"] {
                emit(format!("(via {c} (decx {} {} {} {} {} {}))", kind, fx(0.3), g.seed(), dim, pf(&g.reals(2, dim)), pf(&g.reals(2, dim).into_iter().map(|s| s.into_iter().map(|x| x + 0.5).collect()).collect::<Vec<Vec<f64>>>())));
            }
        }
        // crossover constructors: the flag in the inner case is the OPPOSITE of what the constructor stores
        for pc in [0.0, 0.3, 1.0] { for n in [2usize, 3, 5, 6] {
            for (c, flag) in [("new_insert_single", true), ("new_insert_both", false), ("from_params", true), ("from_params", false)] {
                let t = g.tagged_vecs(n, dim);
                if dim >= 2 { emit(format!("(via {c} (rec-npoint {} {} {} {} {}))", g.rng.range(1, dim as u64 - 1), fx(pc), b(flag), g.seed(), pu(&t))); }
                emit(format!("(via {c} (rec-uniform 0 {} {} {} {}))", fx(pc), b(flag), g.seed(), pu(&t)));
                let pp = g.perms(n, dim);
                emit(format!("(via {c} (rec-cycle 0 {} {} {} {}))", fx(pc), b(flag), g.seed(), pu(&pp)));
                let r = g.reals(n, dim);
                emit(format!("(via {c} (rec-arith 0 {} {} {} {}))", fx(pc), b(flag), g.seed(), pf(&r)));
            }
        } }
    } }
    // ---- (3) `mutation()` with a user-side `Mutation`: all succeed / one fails (first, middle, last), stack heights 1..3
    for kind in 0..3u64 { for height in 1..=3usize { for n in 0..=4usize { for dim in [0usize, 1, 4] {
        let pops: Vec<Vec<Vec<usize>>> = (0..height).map(|h| (0..n).map(|j| (0..dim).map(|i| 1000 * (h + 1) + 10 * j + i).collect()).collect()).collect();
        let top_tag = |j: usize| 1000 * height + 10 * j;
        let mut fails = vec![999_999usize];
        if n > 0 && dim > 0 { fails.extend([top_tag(0), top_tag(n / 2), top_tag(n - 1)]); }
        if height > 1 && n > 0 && dim > 0 { fails.push(1000); }      // a gene of a LOWER population: never visited
        for f in fails {
            emit(format!("(mutdefault {} {} {})", kind, f, pops.iter().map(|p| pu(p)).collect::<Vec<_>>().join(" ")));
        }
    } } } }
    emit("(mutdefault 0 5)".into());    // empty stack: `pop` panics
    // ---- (4) dimension 0 (empty solutions) for every component
    for n in [1usize, 2, 3] {
        let (e_f, e_b, e_u) = (pf(&vec![vec![]; n]), pb(&vec![vec![]; n]), pu(&vec![vec![]; n]));
        for rm in [0.0, 1.0] {
            emit(format!("(mut-normal {} {} 1 {})", fx(1.0), fx(rm), e_f));
            emit(format!("(mut-uniform {} {} 1 {})", fx(1.0), fx(rm), e_f));
            emit(format!("(mut-spread {} {} {} 1 {})", fx(-5.0), fx(5.0), fx(rm), e_f));
            emit(format!("(mut-bitflip {} {} 1 {})", fx(0.5), fx(rm), e_b));
            emit(format!("(mut-bits {} {} 1 {})", fx(0.5), fx(rm), e_b));
            emit(format!("(pmut-scramble {} 1 {})", fx(rm), e_u));
        }
        emit(format!("(pmut-inversion 0 1 {})", e_u));
        emit(format!("(pmut-insertion 0 1 {})", e_u));
        emit(format!("(pmut-transloc 0 1 {})", e_u));
        emit(format!("(pmut-swap 2 1 {})", e_u));
        for both in [true, false] {
            emit(format!("(rec-uniform 0 {} {} 1 {})", fx(1.0), b(both), e_u));
            emit(format!("(rec-cycle 0 {} {} 1 {})", fx(1.0), b(both), e_u));
            emit(format!("(rec-arith 0 {} {} 1 {})", fx(1.0), b(both), e_f));
            emit(format!("(rec-npoint 1 {} {} 1 {})", fx(1.0), b(both), e_u));
        }
        emit(format!("(demut 1 {} {})", fx(0.5), pf(&vec![vec![]; 3 * n])));
        for kind in ["bin", "exp"] { emit(format!("(decx {} {} 1 0 {} {})", kind, fx(0.5), e_f, e_f)); }
    }
    emit(format!("(pmut-insertion 0 1 {})", pu(&[])));
    for kind in ["bin", "exp"] { emit(format!("(decx {} {} 1 0 {} {})", kind, fx(0.5), pf(&[]), pf(&[]))); }
    // ---- (5) large dimensions and populations (a size-dependent path must not go unnoticed)
    for _ in 0..reps { for dim in [12usize, 17, 33, 40] {
        let n = g.rng.range(2, 5) as usize;
        let (p, q, t) = (g.reals(n, dim), g.bits(n, dim), g.tagged_vecs(n, dim));
        for rm in [0.0, 0.5, 1.0] {
            emit(format!("(mut-normal {} {} {} {})", fx(0.1), fx(rm), g.seed(), pf(&p)));
            emit(format!("(mut-uniform {} {} {} {})", fx(0.1), fx(rm), g.seed(), pf(&p)));
            emit(format!("(mut-spread {} {} {} {} {})", fx(-5.0), fx(5.0), fx(rm), g.seed(), pf(&p)));
            emit(format!("(mut-bitflip {} {} {} {})", fx(0.5), fx(rm), g.seed(), pb(&q)));
            emit(format!("(mut-bits {} {} {} {})", fx(1.0), fx(rm), g.seed(), pb(&q)));
            emit(format!("(pmut-scramble {} {} {})", fx(rm), g.seed(), pu(&t)));
        }
        emit(format!("(pmut-inversion 0 {} {})", g.seed(), pu(&t)));
        emit(format!("(pmut-insertion 0 {} {})", g.seed(), pu(&t)));
        emit(format!("(pmut-transloc 0 {} {})", g.seed(), pu(&t[..2.min(n)])));
        for k in [2, 3, dim / 2, dim - 1, dim, dim + 1] { emit(format!("(pmut-swap {} {} {})", k, g.seed(), pu(&t))); }
        for both in [true, false] { for pc in [0.3, 1.0] {
            let m = g.rng.range(2, 12) as usize;
            let t = g.tagged_vecs(m, dim);
            for cuts in [1, 2, dim / 2, dim - 1] { emit(format!("(rec-npoint {} {} {} {} {})", cuts, fx(pc), b(both), g.seed(), pu(&t))); }
            emit(format!("(rec-uniform 0 {} {} {} {})", fx(pc), b(both), g.seed(), pu(&t)));
            emit(format!("(rec-cycle 0 {} {} {} {})", fx(pc), b(both), g.seed(), pu(&g.perms(m, dim))));
            emit(format!("(rec-arith 0 {} {} {} {})", fx(pc), b(both), g.seed(), pf(&g.reals(m, dim))));
        } }
        for y in [1usize, 2] { let r = g.reals(3 * (2 * y + 1), dim); emit(format!("(demut {} {} {})", y, fx(0.5), pf(&r))); }
        for kind in ["bin", "exp"] { for pc in [0.0, 0.3, 1.0] {
            let base = g.reals(3, dim);
            let mutant: Vec<Vec<f64>> = g.reals(3, dim).into_iter().map(|s| s.into_iter().map(|x| x + 0.5).collect()).collect();
            emit(format!("(decx {} {} {} {} {} {})", kind, fx(pc), g.seed(), dim, pf(&base), pf(&mutant)));
        } }
    } }
}

/// Whole configurations on ONE state: the parameter states a component finds there were left by an earlier
/// `Configuration::run`, belong to an instance of the same type and identifier in an enclosing scope, or to
/// instances with other identifiers — each execution must follow the parameters of ITS OWN instance.
fn generate_state(a: &Args, g: &mut G, emit: &mut dyn FnMut(String)) {
    let reps = if a.thorough { 8 } else { 1 };
    let kinds = ["normal", "uniform", "spread", "bitflip", "bits", "scramble"];
    // the first parameter of an instance: strength / bound, `p` of the bitstring resampler, unused otherwise
    fn p1s(kind: &str) -> &'static [f64] {
        match kind { "normal" | "uniform" => &[0.1, 25.0, 1.0], "bits" => &[1.0, 0.0, 0.5], _ => &[0.0] }
    }
    let m = |id: &str, p1: f64, rm: f64| format!("(m {id} {} {})", fx(p1), fx(rm));
    for _ in 0..reps { for kind in kinds {
        let ps = p1s(kind);
        let (va, vb) = (ps[0], ps[ps.len().min(2) - 1]);
        let mut case = |g: &mut G, runs: &[String]| {
            let (n, dim) = (g.rng.range(1, 3) as usize, g.rng.range(1, 6) as usize);
            let pop = match kind { "normal" | "uniform" | "spread" => pf(&g.reals(n, dim)), "scramble" => pu(&g.tagged_vecs(n, dim)), _ => pb(&g.bits(n, dim)) };
            emit(format!("(state {kind} {} {pop} {})", g.seed(), runs.iter().map(|r| format!("(run {r})")).collect::<Vec<_>>().join(" ")));
        };
        for id in ["g", "a"] {
            // (A) the same State used again: a later instance with OTHER values (rate 1 -> 0, 0 -> 1, an invalid
            // rate that made the first run fail -> a valid one, strengths swapped)
            for rates in [&[1.0, 0.0][..], &[0.0, 1.0], &[0.5, 0.0], &[1.0, 0.0, 1.0, 0.0], &[1.5, 0.5], &[1.5, 0.0], &[f64::NAN, 1.0], &[1.0, 1.0, 0.0]] {
                let runs: Vec<String> = rates.iter().enumerate().map(|(i, &r)| m(id, if i % 2 == 0 { vb } else { va }, r)).collect();
                case(g, &runs);
            }
            // (B) an instance in a Scope under an enclosing instance of the same type and identifier, depth 1..3;
            // the enclosing instance executes again after the scope and must still follow its own values
            for (outer, inner) in [(1.0, 0.0), (0.0, 1.0), (0.5, 0.0), (1.0, 0.5)] {
                case(g, &[format!("{} (scope {})", m(id, vb, outer), m(id, va, inner))]);
                case(g, &[format!("{} (scope {}) {}", m(id, vb, outer), m(id, va, inner), m(id, vb, outer))]);
                case(g, &[format!("{} (scope {} (scope {}))", m(id, vb, outer), m(id, va, 0.5), m(id, va, inner))]);
                case(g, &[format!("{} (scope (scope {} (scope {})) {}) {}", m(id, vb, outer), m(id, va, outer), m(id, va, inner), m(id, vb, inner), m(id, vb, outer))]);
                case(g, &[format!("{} (scope (scope (scope {})))", m(id, vb, outer), m(id, va, inner))]);
                // (D) loops: the scope is entered (and its body initialised) in every pass
                case(g, &[format!("(loop 2 {} (scope {}))", m(id, vb, outer), m(id, va, inner))]);
                case(g, &[format!("{} (scope (loop 2 {} (scope {})))", m(id, vb, outer), m(id, va, inner), m(id, va, outer))]);
                // (A+B) a second run on the state the nested run left
                case(g, &[format!("{} (scope {})", m(id, vb, outer), m(id, va, inner)), format!("{} (scope {})", m(id, va, inner), m(id, vb, outer))]);
            }
        }
        // (C) instances with different identifiers side by side, in scopes, and across runs
        for (ra, rg) in [(0.0, 1.0), (1.0, 0.0), (0.5, 1.0)] {
            case(g, &[format!("{} {} {} {}", m("a", va, ra), m("g", vb, rg), m("a", va, ra), m("b", vb, ra))]);
            case(g, &[format!("{} {} (scope {} {}) {} {}", m("a", va, ra), m("g", vb, rg), m("a", vb, rg), m("g", va, ra), m("a", va, ra), m("g", vb, rg))]);
            case(g, &[format!("{} (scope {} (scope {}))", m("a", va, ra), m("g", vb, rg), m("a", vb, rg)), format!("{} {}", m("g", va, ra), m("a", vb, rg))]);
            case(g, &[format!("{} {}", m("a", va, ra), m("b", va, rg)), format!("{} {}", m("b", vb, ra), m("a", vb, rg)), format!("(scope {}) {}", m("b", va, rg), m("b", vb, ra))]);
        }
        // (F) branches: the instance in the if arm / the else arm of `if_` / `if_else_`, condition true / false, built with
        // Branch::new / new_with_else (`if`, `ifelse`) and through the builder (`bif`, `bifelse`, `bscope`, `bwhile`):
        // on a fresh state, under an enclosing / earlier instance of the same type and identifier, in loops, nested
        for (id, other) in [("g", "b"), ("a", "g")] {
            for (ie, iff, sc, lp) in [("ifelse", "if", "scope", "loop 2"), ("bifelse", "bif", "bscope", "bwhile 2")] {
                for (own, stale) in [(0.0, 1.0), (1.0, 0.0), (0.5, 1.0)] {
                    let (x, y, o) = (m(id, va, own), m(id, vb, stale), m(other, vb, stale));
                    for c in ["t", "f"] {
                        // fresh state: the arm's instance has nothing but its own init
                        case(g, &[format!("({ie} {c} (then {x}) (else))")]);
                        case(g, &[format!("({ie} {c} (then) (else {x}))")]);
                        case(g, &[format!("({ie} {c} (then {x}) (else {o}))")]);
                        case(g, &[format!("({ie} {c} (then {o}) (else {x})) {x}")]);
                        case(g, &[format!("({iff} {c} {x}) {o}")]);
                        // an enclosing instance of the same type and identifier with other values
                        case(g, &[format!("{y} ({sc} ({ie} {c} (then {x}) (else {o})))")]);
                        case(g, &[format!("{y} ({sc} ({ie} {c} (then {o}) (else {x}))) {y}")]);
                        case(g, &[format!("{y} ({sc} ({iff} {c} {x}) {o})")]);
                        case(g, &[format!("{y} ({iff} {c} ({sc} {x} ({ie} {c} (then {x}) (else))))")]);
                        // an earlier run left other values
                        case(g, &[y.clone(), format!("({ie} {c} (then {x}) (else {o}))")]);
                        case(g, &[format!("({ie} {c} (then {y}) (else))"), format!("({ie} {c} (then {o}) (else {x}))"), format!("({iff} {c} {y})")]);
                        // loops around and inside branches, branches in branches
                        case(g, &[format!("({lp} ({ie} {c} (then {x}) (else {o})))")]);
                        case(g, &[format!("({ie} {c} (then ({lp} {x})) (else ({lp} {o} {x})))")]);
                        case(g, &[format!("({iff} t ({ie} f (then {o}) (else ({iff} {c} {x}) ({ie} {c} (then) (else {x})))))")]);
                        case(g, &[format!("{y} ({sc} ({lp} ({ie} {c} (then ({sc} ({iff} t {y}))) (else {x}))))")]);
                    }
                }
            }
        }
        // the same type and identifier with different values in the two arms: ONE level (the else arm's init wins) -> `!malformed`
        case(g, &[format!("(ifelse t (then {}) (else {}))", m("g", va, 0.0), m("g", va, 1.0))]);
        // instances of one type and identifier with different values at ONE level: the later init wins (outside what
        // identifiers are for: site `!malformed`, the model must agree)
        case(g, &[format!("{} {}", m("g", va, 1.0), m("g", va, 0.0))]);
        case(g, &[format!("{} (scope {} (loop 2 {}))", m("g", va, 0.0), m("a", vb, 0.0), m("a", vb, 1.0))]);
        // (E) random configurations: 1..3 runs, depth <= 3, identifiers g/a/b, one set of values per level and identifier
        for _ in 0..(if a.thorough { 40 } else { 24 }) {
            let nruns = g.rng.range(1, 3) as usize;
            let runs: Vec<String> = (0..nruns).map(|_| random_level(g, ps, 0, false)).collect();
            case(g, &runs);
        }
    } }
}

/// One block: every identifier gets one (p1, rate) for this level; 1..4 items: instances, scopes (a new level),
/// at most one loop per level and none directly inside a loop (nested loops share `Iterations` unless scoped).
fn random_level(g: &mut G, ps: &[f64], depth: usize, in_loop: bool) -> String {
    let ids = ["g", "a", "b"];
    let vals: Vec<(f64, f64)> = ids.iter().map(|_| (*g.rng.pick(ps), *g.rng.pick(&[0.0, 0.0, 1.0, 1.0, 0.5]))).collect();
    random_items(g, ps, depth, in_loop, &vals, &mut false)
}

fn random_items(g: &mut G, ps: &[f64], depth: usize, in_loop: bool, vals: &[(f64, f64)], looped: &mut bool) -> String {
    let ids = ["g", "a", "b"];
    let n = g.rng.range(1, if depth == 0 { 4 } else { 3 }) as usize;
    let mut out = vec![];
    for _ in 0..n {
        match g.rng.below(10) {
            0 | 1 if depth < 3 => {
                let h = if g.rng.chance(1, 3) { "bscope" } else { "scope" };
                out.push(format!("({h} {})", random_level(g, ps, depth + 1, false)));
            }
            3 if !in_loop && !*looped => {
                *looped = true;
                let k = g.rng.range(1, 3);
                let h = if g.rng.chance(1, 3) { "bwhile" } else { "loop" };
                let body = random_items(g, ps, depth, true, vals, looped);
                out.push(format!("({h} {k} {body})"));
            }
            // a branch: its arms belong to this level (same values per identifier)
            2 | 4 if depth < 3 => {
                let c = if g.rng.chance(1, 2) { "t" } else { "f" };
                let via = g.rng.chance(1, 3);
                let tb = random_items(g, ps, depth + 1, in_loop, vals, looped);
                if g.rng.chance(1, 3) {
                    out.push(format!("({} {c} {tb})", if via { "bif" } else { "if" }));
                } else {
                    let eb = if g.rng.chance(1, 4) { String::new() } else { random_items(g, ps, depth + 1, in_loop, vals, looped) };
                    out.push(format!("({} {c} (then {tb}) (else {eb}))", if via { "bifelse" } else { "ifelse" }));
                }
            }
            _ => {
                // mostly the first two identifiers, so that instances of one type and identifier meet
                let i = if g.rng.chance(1, 6) { 2 } else { g.rng.below(2) as usize };
                out.push(format!("(m {} {} {})", ids[i], fx(vals[i].0), fx(vals[i].1)));
            }
        }
    }
    out.join(" ")
}
