//! C13 part 2 — mutation / recombination components (module of bin `c13`): every case runs the
//! REAL component through `init` + `execute` on a `State` with one (DE crossover: two) population(s).
//! The harness prints input and resulting population only; the witness (indices, masks, draws) is
//! read off the unique element tags by the Lean driver, which also checks that it is a legal one.
use hcommon::problems::{OneMax, Sphere, Tsp};
use hcommon::*;
use mahf::components::mutation::de::DEMutation;
use mahf::components::mutation::common::InsertionMutation;
use mahf::components::mutation::*;
use mahf::components::recombination::de::{DEBinomialCrossover, DEExponentialCrossover};
use mahf::components::recombination::*;
use mahf::identifier::A;
use mahf::state::common::Populations;
use mahf::{Component, Individual, Problem, Random, SingleObjective, State};
use rand::{RngCore, SeedableRng};

/// A generator whose every word is zero: `gen::<f64>()` = 0.0, the smallest possible draw.
pub struct ZeroRng;
impl RngCore for ZeroRng {
    fn next_u32(&mut self) -> u32 { 0 }
    fn next_u64(&mut self) -> u64 { 0 }
    fn fill_bytes(&mut self, dest: &mut [u8]) { for b in dest { *b = 0 } }
    fn try_fill_bytes(&mut self, dest: &mut [u8]) -> Result<(), rand::Error> { self.fill_bytes(dest); Ok(()) }
}
impl SeedableRng for ZeroRng {
    type Seed = [u8; 8];
    fn from_seed(_: [u8; 8]) -> Self { ZeroRng }
}

fn fl(x: &Sx) -> Vec<f64> { x.items().unwrap().iter().map(|t| t.float().unwrap()).collect() }
fn us(x: &Sx) -> Vec<usize> { x.items().unwrap().iter().map(|t| t.nat().unwrap() as usize).collect() }
fn bl(x: &Sx) -> Vec<bool> { x.items().unwrap().iter().map(|t| t.atom().unwrap() == "t").collect() }
fn fs(v: &[f64]) -> String { list(v.iter().map(|&x| fx(x))) }
fn vs(v: &[usize]) -> String { nats(v.iter().map(|&x| x as u64)) }
fn bs(v: &[bool]) -> String { list(v.iter().map(|&x| b(x))) }
fn pop_of<T>(x: &Sx, f: impl Fn(&Sx) -> Vec<T>) -> Vec<Vec<T>> {
    let (_, sols) = x.head().unwrap();
    sols.iter().map(|s| f(s)).collect()
}
fn rng_of(x: &Sx) -> Random {
    match x.atom().unwrap() {
        "zero" => Random::with_rng::<ZeroRng>(0),
        s => Random::new(s.parse().unwrap()),
    }
}

/// Runs `init` + `execute` of `comp` on a state holding `pops` (bottom first) of EVALUATED individuals;
/// prints the stack height, the evaluated flags and the solutions of the top population.
fn run<P: Problem<Objective = SingleObjective>>(problem: &P, comp: Result<Box<dyn Component<P>>, ()>, rng: Random,
                   pops: Vec<Vec<P::Encoding>>, show: impl Fn(&P::Encoding) -> String) -> String {
    let Ok(comp) = comp else { return "(e ctor)".into() };
    let r = catch(|| {
        let mut state: State<P> = State::new();
        state.insert(Populations::<P>::new());
        state.insert(rng);
        for p in pops {
            state.populations_mut().push(p.into_iter().map(|s| Individual::new(s, SingleObjective::try_from(1.0).unwrap())).collect());
        }
        if comp.init(problem, &mut state).is_err() { return "(e init)".to_string(); }
        match comp.execute(problem, &mut state) {
            Err(_) => "(e exec)".to_string(),
            Ok(()) => {
                let pops = state.populations();
                let top: Vec<String> = pops.current().iter().map(|i| show(i.solution())).collect();
                let ev: Vec<String> = pops.current().iter().map(|i| b(i.is_evaluated())).collect();
                list(["ok".to_string(), pops.len().to_string(), tagged("ev", ev), tagged("pop", top)])
            }
        }
    });
    r.unwrap_or_else(|| "panic".into())
}

/// Initialises ALL components on one state (each inserts its own rate / strength states), then executes
/// them one after the other; prints one standard result per executed component, stopping at the first failure.
fn run_phases<P: Problem<Objective = SingleObjective>>(problem: &P, comps: Vec<Box<dyn Component<P>>>, rng: Random,
                   pop: Vec<P::Encoding>, show: impl Fn(&P::Encoding) -> String) -> String {
    let mut state: State<P> = State::new();
    state.insert(Populations::<P>::new());
    state.insert(rng);
    state.populations_mut().push(pop.into_iter().map(|s| Individual::new(s, SingleObjective::try_from(1.0).unwrap())).collect());
    let mut phases = vec![];
    if catch(|| comps.iter().all(|c| c.init(problem, &mut state).is_ok())) != Some(true) {
        return tagged("phases", ["(e init)".to_string()]);
    }
    for c in &comps {
        let r = catch(|| match c.execute(problem, &mut state) {
            Err(_) => "(e exec)".to_string(),
            Ok(()) => {
                let pops = state.populations();
                let top: Vec<String> = pops.current().iter().map(|i| show(i.solution())).collect();
                let ev: Vec<String> = pops.current().iter().map(|i| b(i.is_evaluated())).collect();
                list(["ok".to_string(), pops.len().to_string(), tagged("ev", ev), tagged("pop", top)])
            }
        }).unwrap_or_else(|| "panic".into());
        let ok = r.starts_with("(ok");
        phases.push(r);
        if !ok { break; }
    }
    tagged("phases", phases)
}

/// `(a P1 P2 RM)` / `(g P1 P2 RM)`
fn triple(x: &Sx) -> (f64, f64, f64) {
    let v = x.items().unwrap();
    (v[1].float().unwrap(), v[2].float().unwrap(), v[3].float().unwrap())
}

pub fn run_component(name: &str, a: &[Sx]) -> String {
    let dim_of = |n: usize| n.max(1);
    match name {
        "mut-normal" | "mut-uniform" => {
            let (p1, rm) = (a[0].float().unwrap(), a[1].float().unwrap());
            let pop = pop_of(&a[3], fl);
            let problem = Sphere::new(dim_of(pop.first().map_or(0, |s| s.len())), -5.0, 5.0, 0.0);
            let c = if name == "mut-normal" { NormalMutation::new(p1, rm) } else { UniformMutation::new(p1, rm) };
            run(&problem, Ok(c), rng_of(&a[2]), vec![pop], |s| fs(s))
        }
        "mut-spread" => {
            let (lo, hi, rm) = (a[0].float().unwrap(), a[1].float().unwrap(), a[2].float().unwrap());
            let pop = pop_of(&a[4], fl);
            let problem = Sphere::new(pop.first().map_or(0, |s| s.len()), lo, hi, 0.0);
            run(&problem, Ok(PartialRandomSpread::new(rm)), rng_of(&a[3]), vec![pop], |s| fs(s))
        }
        "mut-bitflip" | "mut-bits" => {
            let (p, rm) = (a[0].float().unwrap(), a[1].float().unwrap());
            let pop = pop_of(&a[3], bl);
            let problem = OneMax::new(pop.first().map_or(0, |s| s.len()));
            let c = if name == "mut-bitflip" { BitFlipMutation::new(rm) } else { PartialRandomBitstring::new(p, rm) };
            run(&problem, Ok(c), rng_of(&a[2]), vec![pop], |s| bs(s))
        }
        "idm" => {
            // instance with identifier `A` alone, or `A` next to the `Global` instance of the same component
            let kind = a[0].atom().unwrap();
            let both = a[1].atom().unwrap() == "both";
            let (a1, a2, arm) = triple(&a[2]);
            let (g1, g2, grm) = triple(&a[3]);
            match kind {
                "normal" | "uniform" | "spread" => {
                    let pop = pop_of(&a[5], fl);
                    let dim = pop.first().map_or(0, |s| s.len());
                    let problem = if kind == "spread" { Sphere::new(dim, a1, a2, 0.0) } else { Sphere::new(dim.max(1), -5.0, 5.0, 0.0) };
                    let mut comps: Vec<Box<dyn Component<Sphere>>> = vec![match kind {
                        "normal" => NormalMutation::<A>::new_with_id(a1, arm),
                        "uniform" => UniformMutation::<A>::new_with_id(a1, arm),
                        _ => PartialRandomSpread::<A>::new_with_id(arm),
                    }];
                    if both { comps.push(match kind {
                        "normal" => NormalMutation::new(g1, grm),
                        "uniform" => UniformMutation::new(g1, grm),
                        _ => PartialRandomSpread::new(grm),
                    }); }
                    let _ = g2;
                    run_phases(&problem, comps, rng_of(&a[4]), pop, |s| fs(s))
                }
                "bitflip" | "bits" => {
                    let pop = pop_of(&a[5], bl);
                    let problem = OneMax::new(pop.first().map_or(0, |s| s.len()));
                    let mut comps: Vec<Box<dyn Component<OneMax>>> = vec![if kind == "bitflip" {
                        BitFlipMutation::<A>::new_with_id(arm) } else { PartialRandomBitstring::<A>::new_with_id(a1, arm) }];
                    if both { comps.push(if kind == "bitflip" { BitFlipMutation::new(grm) } else { PartialRandomBitstring::new(g1, grm) }); }
                    run_phases(&problem, comps, rng_of(&a[4]), pop, |s| bs(s))
                }
                _ => {
                    let pop = pop_of(&a[5], us);
                    let n = pop.first().map_or(0, |s| s.len());
                    let problem = Tsp::new(vec![vec![1.0; n]; n]);
                    let mut comps: Vec<Box<dyn Component<Tsp>>> = vec![ScrambleMutation::<A>::new_with_id(arm)];
                    if both { comps.push(ScrambleMutation::new(grm)); }
                    run_phases(&problem, comps, rng_of(&a[4]), pop, |s| vs(s))
                }
            }
        }
        "pmut-swap" | "pmut-scramble" | "pmut-inversion" | "pmut-insertion" | "pmut-transloc" => {
            let pop = pop_of(&a[2], us);
            let n = pop.first().map_or(0, |s| s.len());
            let problem = Tsp::new(vec![vec![1.0; n]; n]);
            let c: Result<Box<dyn Component<Tsp>>, ()> = match name {
                "pmut-swap" => SwapMutation::new(a[0].nat().unwrap() as u32).map_err(|_| ()),
                "pmut-scramble" => Ok(ScrambleMutation::new(a[0].float().unwrap())),
                "pmut-inversion" => Ok(Box::new(InversionMutation::from_params())),
                "pmut-insertion" => Ok(InsertionMutation::new()),
                _ => Ok(TranslocationMutation::new()),
            };
            run(&problem, c, rng_of(&a[1]), vec![pop], |s| vs(s))
        }
        "rec-npoint" | "rec-uniform" | "rec-cycle" => {
            let n = a[0].nat().unwrap() as usize;
            let (pc, both) = (a[1].float().unwrap(), a[2].atom().unwrap() == "t");
            let pop = pop_of(&a[4], us);
            let d = pop.first().map_or(0, |s| s.len());
            let problem = Tsp::new(vec![vec![1.0; d]; d]);
            let c: Box<dyn Component<Tsp>> = match name {
                "rec-npoint" => NPointCrossover::new(n, pc, both),
                "rec-uniform" => UniformCrossover::new(pc, both),
                _ => CycleCrossover::new(pc, both),
            };
            run(&problem, Ok(c), rng_of(&a[3]), vec![pop], |s| vs(s))
        }
        "rec-arith" => {
            let (pc, both) = (a[1].float().unwrap(), a[2].atom().unwrap() == "t");
            let pop = pop_of(&a[4], fl);
            let problem = Sphere::new(pop.first().map_or(0, |s| s.len()), -5.0, 5.0, 0.0);
            run(&problem, Ok(ArithmeticCrossover::new(pc, both)), rng_of(&a[3]), vec![pop], |s| fs(s))
        }
        "demut" => {
            let (y, f) = (a[0].nat().unwrap() as u32, a[1].float().unwrap());
            let pop = pop_of(&a[2], fl);
            let problem = Sphere::new(pop.first().map_or(0, |s| s.len()), -5.0, 5.0, 0.0);
            run(&problem, DEMutation::new(y, f).map_err(|_| ()), Random::new(0), vec![pop], |s| fs(s))
        }
        "decx" => {
            let kind = a[0].atom().unwrap();
            let pc = a[1].float().unwrap();
            let dim = a[3].nat().unwrap() as usize;
            let pops: Vec<Vec<Vec<f64>>> = a[4..].iter().map(|p| pop_of(p, fl)).collect();   // bottom first: base, then mut
            let problem = Sphere::new(dim, -5.0, 5.0, 0.0);
            let c: Box<dyn Component<Sphere>> = if kind == "bin" { DEBinomialCrossover::new(pc) } else { DEExponentialCrossover::new(pc) };
            run(&problem, Ok(c), rng_of(&a[2]), pops, |s| fs(s))
        }
        _ => panic!("unknown case kind {name}"),
    }
}

fn unit(x: f64) -> bool { (0.0..=1.0).contains(&x) }
fn strength(x: f64) -> bool { x >= 0.0 && x.is_finite() }

pub fn site_of(name: &str, a: &[Sx]) -> String {
    let zero = |i: usize| a[i].atom() == Some("zero");
    let dim = |i: usize| a[i].head().map_or(0, |(_, s)| s.first().map_or(0, |x| x.items().map_or(0, |v| v.len())));
    let (site, ok): (&str, bool) = match name {
        "mut-normal" => ("NormalMutation", strength(a[0].float().unwrap()) && unit(a[1].float().unwrap())),
        "mut-uniform" => ("UniformMutation", strength(a[0].float().unwrap()) && unit(a[1].float().unwrap())),
        "idm" => {
            let (a1, _, arm) = triple(&a[2]);
            let (g1, _, grm) = triple(&a[3]);
            let kind = a[0].atom().unwrap();
            let st = |x: f64| !(kind == "normal" || kind == "uniform") || strength(x);
            (match kind { "normal" => "NormalMutation@id", "uniform" => "UniformMutation@id", "spread" => "PartialRandomSpread@id",
                          "bitflip" => "BitFlipMutation@id", "bits" => "PartialRandomBitstring@id", _ => "ScrambleMutation@id" },
             st(a1) && st(g1) && unit(arm) && unit(grm))
        }
        "mut-spread" => ("PartialRandomSpread", unit(a[2].float().unwrap())),
        "mut-bitflip" => ("BitFlipMutation", unit(a[1].float().unwrap())),
        "mut-bits" => ("PartialRandomBitstring", unit(a[0].float().unwrap()) && unit(a[1].float().unwrap())),
        "pmut-swap" => { let k = a[0].nat().unwrap() as usize; ("SwapMutation", k >= 2 && (k <= dim(2) || a[2].items().map_or(true, |v| v.len() <= 1))) }
        "pmut-scramble" => ("ScrambleMutation", unit(a[0].float().unwrap())),
        "pmut-inversion" => ("InversionMutation", true),
        "pmut-insertion" => ("InsertionMutation", true),
        "pmut-transloc" => ("TranslocationMutation", true),
        "rec-npoint" => { let n = a[0].nat().unwrap() as usize;
            (if n >= 1 && n < dim(4) { "NPointCrossover" } else { "NPointCrossover@n-out-of-range" }, true) }
        "rec-uniform" => ("UniformCrossover", true),
        "rec-cycle" => ("CycleCrossover", true),
        "rec-arith" => ("ArithmeticCrossover", true),
        "demut" => { let y = a[0].nat().unwrap(); let f = a[1].float().unwrap(); ("DEMutation", (y == 1 || y == 2) && f > 0.0 && f <= 2.0) }
        "decx" => (if a[0].atom() == Some("bin") { "DEBinomialCrossover" } else { "DEExponentialCrossover" }, a.len() >= 6),
        _ => (name, true),
    };
    let z = match name {
        "rec-npoint" | "rec-uniform" | "rec-cycle" | "rec-arith" => zero(3),
        _ => false,
    };
    format!("{}{}{}", site, if z { "@zero-draw" } else { "" }, if ok { "" } else { "!malformed" })
}

// ------------------------------------------------------------------ generators
struct G<'a> { rng: &'a mut Sm }
impl<'a> G<'a> {
    fn reals(&mut self, n: usize, dim: usize) -> Vec<Vec<f64>> {
        // distinct values: a different fractional part for every coordinate of the case
        let mut k = 0.0;
        (0..n).map(|_| (0..dim).map(|_| { k += 1.0; (self.rng.unit() * 8.0 - 4.0).floor() + k / 1024.0 }).collect()).collect()
    }
    fn bits(&mut self, n: usize, dim: usize) -> Vec<Vec<bool>> {
        (0..n).map(|_| (0..dim).map(|_| self.rng.chance(1, 2)).collect()).collect()
    }
    /// every gene of the case is a distinct tag: parent j, position i ↦ 100*(j+1)+i
    fn tagged_vecs(&mut self, n: usize, dim: usize) -> Vec<Vec<usize>> {
        (0..n).map(|j| (0..dim).map(|i| 100 * (j + 1) + i).collect()).collect()
    }
    fn perms(&mut self, n: usize, dim: usize) -> Vec<Vec<usize>> {
        (0..n).map(|_| {
            let mut p: Vec<usize> = (0..dim).collect();
            for i in (1..dim).rev() { p.swap(i, self.rng.below(i as u64 + 1) as usize); }
            p
        }).collect()
    }
    fn seed(&mut self) -> u64 { self.rng.next() % 1_000_000 }
}
fn pf(p: &[Vec<f64>]) -> String { tagged("pop", p.iter().map(|s| fs(s))) }
fn pu(p: &[Vec<usize>]) -> String { tagged("pop", p.iter().map(|s| vs(s))) }
fn pb(p: &[Vec<bool>]) -> String { tagged("pop", p.iter().map(|s| bs(s))) }

pub fn generate(a: &Args, rng: &mut Sm, emit: &mut dyn FnMut(String)) {
    let mut g = G { rng };
    let reps = if a.thorough { 12 } else { 3 };
    let rates = [0.0, 0.5, 1.0];
    let probs = [0.0, 0.3, 1.0];
    for _ in 0..reps {
        for dim in 1..=8usize {
            for &rm in &rates {
                let n = g.rng.range(0, 4) as usize;
                // real / bit mutations
                let p = g.reals(n, dim);
                emit(format!("(mut-normal {} {} {} {})", fx(*g.rng.pick(&[0.0, 0.1, 1.0, 25.0])), fx(rm), g.seed(), pf(&p)));
                emit(format!("(mut-uniform {} {} {} {})", fx(*g.rng.pick(&[0.0, 0.1, 1.0, 25.0])), fx(rm), g.seed(), pf(&p)));
                let (lo, hi) = *g.rng.pick(&[(-5.0, 5.0), (0.0, 10.0), (-5.0, -2.0), (1e-3, 1e6)]);
                emit(format!("(mut-spread {} {} {} {} {})", fx(lo), fx(hi), fx(rm), g.seed(), pf(&p)));
                let q = g.bits(n, dim);
                emit(format!("(mut-bitflip {} {} {} {})", fx(0.5), fx(rm), g.seed(), pb(&q)));
                for pr in [0.0, 0.5, 1.0] {
                    emit(format!("(mut-bits {} {} {} {})", fx(pr), fx(rm), g.seed(), pb(&q)));
                }
                // scramble
                let t = g.tagged_vecs(n, dim);
                emit(format!("(pmut-scramble {} {} {})", fx(rm), g.seed(), pu(&t)));
            }
            // identified instances (`new_with_id::<A>`): alone, and next to the Global instance with a
            // DIFFERENT rate / strength — each instance must follow its own parameters
            for (arm, grm) in [(0.0, 1.0), (1.0, 0.0), (0.5, 0.5)] {
                let n = g.rng.range(1, 3) as usize;
                let p = g.reals(n, dim);
                let q = g.bits(n, dim);
                let t = g.tagged_vecs(n, dim);
                for mode in ["alone", "both"] {
                    emit(format!("(idm normal {} (a {} {} {}) (g {} {} {}) {} {})", mode, fx(0.1), fx(0.0), fx(arm), fx(25.0), fx(0.0), fx(grm), g.seed(), pf(&p)));
                    emit(format!("(idm uniform {} (a {} {} {}) (g {} {} {}) {} {})", mode, fx(0.1), fx(0.0), fx(arm), fx(25.0), fx(0.0), fx(grm), g.seed(), pf(&p)));
                    emit(format!("(idm spread {} (a {} {} {}) (g {} {} {}) {} {})", mode, fx(-5.0), fx(5.0), fx(arm), fx(-5.0), fx(5.0), fx(grm), g.seed(), pf(&p)));
                    emit(format!("(idm bitflip {} (a {} {} {}) (g {} {} {}) {} {})", mode, fx(0.5), fx(0.0), fx(arm), fx(0.5), fx(0.0), fx(grm), g.seed(), pb(&q)));
                    emit(format!("(idm bits {} (a {} {} {}) (g {} {} {}) {} {})", mode, fx(1.0), fx(0.0), fx(arm), fx(0.0), fx(0.0), fx(grm), g.seed(), pb(&q)));
                    emit(format!("(idm scramble {} (a {} {} {}) (g {} {} {}) {} {})", mode, fx(0.0), fx(0.0), fx(arm), fx(0.0), fx(0.0), fx(grm), g.seed(), pu(&t)));
                }
            }
            // permutation mutations without a rate
            for _ in 0..4 {
                let n = g.rng.range(0, 4) as usize;
                let t = g.tagged_vecs(n, dim);
                emit(format!("(pmut-inversion 0 {} {})", g.seed(), pu(&t)));
                emit(format!("(pmut-insertion 0 {} {})", g.seed(), pu(&t)));
                emit(format!("(pmut-transloc 0 {} {})", g.seed(), pu(&t)));
            }
            for k in 0..=dim + 1 {
                let n = g.rng.range(0, 3) as usize;
                let t = g.tagged_vecs(n, dim);
                emit(format!("(pmut-swap {} {} {})", k, g.seed(), pu(&t)));
            }
            // recombination
            for &pc in &probs { for both in [true, false] {
                for n in [0usize, 1, 2, 3, 4, 5, 6, 7] {
                    if !a.thorough && n > 1 && (n + dim) % 3 == 0 { continue; }
                    let t = g.tagged_vecs(n, dim);
                    let cuts = g.rng.range(0, dim as u64 + 1) as usize;
                    emit(format!("(rec-npoint {} {} {} {} {})", cuts, fx(pc), b(both), g.seed(), pu(&t)));
                    if dim >= 2 {
                        emit(format!("(rec-npoint {} {} {} {} {})", g.rng.range(1, dim as u64 - 1), fx(pc), b(both), g.seed(), pu(&t)));
                    }
                    emit(format!("(rec-uniform 0 {} {} {} {})", fx(pc), b(both), g.seed(), pu(&t)));
                    let pp = g.perms(n, dim);
                    emit(format!("(rec-cycle 0 {} {} {} {})", fx(pc), b(both), g.seed(), pu(&pp)));
                    let r = g.reals(n, dim);
                    emit(format!("(rec-arith 0 {} {} {} {})", fx(pc), b(both), g.seed(), pf(&r)));
                }
            } }
            // the smallest possible draw (all-zero generator): the gate `gen::<f64>() < pc` must not
            // cross at pc = 0 and must cross at every pc > 0
            for pc in [0.0, 0.3] { for both in [true, false] { for n in [2usize, 3, 4] {
                let t = g.tagged_vecs(n, dim);
                if dim >= 2 { emit(format!("(rec-npoint 1 {} {} zero {})", fx(pc), b(both), pu(&t))); }
                emit(format!("(rec-uniform 0 {} {} zero {})", fx(pc), b(both), pu(&t)));
                let r = g.reals(n, dim);
                emit(format!("(rec-arith 0 {} {} zero {})", fx(pc), b(both), pf(&r)));
                let pp: Vec<Vec<usize>> = (0..n).map(|j| (0..dim).map(|i| (i + j) % dim).collect()).collect();
                emit(format!("(rec-cycle 0 {} {} zero {})", fx(pc), b(both), pu(&pp)));
            } } }
            // DE mutation: every y, population sizes 0..11 (multiples of 2y+1 and not)
            for y in [1u64, 2] { for n in 0..=11usize {
                let f = *g.rng.pick(&[0.5, 1.0, 2.0, 0.25]);
                let r = g.reals(n, dim);
                emit(format!("(demut {} {} {})", y, fx(f), pf(&r)));
            } }
            // DE crossovers
            for kind in ["bin", "exp"] { for &pc in &probs { for n in [0usize, 1, 3] {
                let base = g.reals(n, dim);
                let mutant: Vec<Vec<f64>> = g.reals(n, dim).into_iter().map(|s| s.into_iter().map(|x| x + 0.5).collect()).collect();
                emit(format!("(decx {} {} {} {} {} {})", kind, fx(pc), g.seed(), dim, pf(&base), pf(&mutant)));
            } } }
        }
    }
    // parameter values outside the documented domain (never a violation; the model must still agree)
    let p = g.reals(2, 3);
    let q = g.bits(2, 3);
    let t = g.tagged_vecs(2, 3);
    for bad in [-0.5, 1.5] {
        emit(format!("(mut-normal {} {} 1 {})", fx(1.0), fx(bad), pf(&p)));
        emit(format!("(mut-uniform {} {} 1 {})", fx(1.0), fx(bad), pf(&p)));
        emit(format!("(mut-spread {} {} {} 1 {})", fx(-5.0), fx(5.0), fx(bad), pf(&p)));
        emit(format!("(mut-bitflip {} {} 1 {})", fx(0.5), fx(bad), pb(&q)));
        emit(format!("(mut-bits {} {} 1 {})", fx(0.5), fx(bad), pb(&q)));
        emit(format!("(pmut-scramble {} 1 {})", fx(bad), pu(&t)));
    }
    emit(format!("(mut-uniform {} {} 1 {})", fx(-1.0), fx(0.5), pf(&p)));
    // corners of the guards: negative / infinite / NaN strength and rate
    for st in [-1.0, f64::INFINITY, f64::NEG_INFINITY, f64::NAN] { for rm in [0.0, 0.5, 1.0] {
        emit(format!("(mut-normal {} {} 1 {})", fx(st), fx(rm), pf(&p)));
        emit(format!("(mut-uniform {} {} 1 {})", fx(st), fx(rm), pf(&p)));
    } }
    for bad in [f64::NAN, f64::INFINITY, f64::NEG_INFINITY, -0.0] {
        emit(format!("(mut-normal {} {} 1 {})", fx(1.0), fx(bad), pf(&p)));
        emit(format!("(mut-uniform {} {} 1 {})", fx(1.0), fx(bad), pf(&p)));
        emit(format!("(mut-spread {} {} {} 1 {})", fx(-5.0), fx(5.0), fx(bad), pf(&p)));
        emit(format!("(mut-bitflip {} {} 1 {})", fx(0.5), fx(bad), pb(&q)));
        emit(format!("(mut-bits {} {} 1 {})", fx(0.5), fx(bad), pb(&q)));
        emit(format!("(pmut-scramble {} 1 {})", fx(bad), pu(&t)));
    }
    for f in [f64::NAN, f64::INFINITY] { emit(format!("(demut 1 {} {})", fx(f), pf(&g.reals(3, 2)))); }
    for (y, f) in [(0u64, 1.0), (3, 1.0), (1, -0.5), (1, 2.5), (1, 0.0)] {
        emit(format!("(demut {} {} {})", y, fx(f), pf(&g.reals(3, 2))));
    }
    // DE crossover with fewer than two populations
    for kind in ["bin", "exp"] {
        emit(format!("(decx {} {} 1 3 {})", kind, fx(0.5), pf(&g.reals(2, 3))));
    }
}
