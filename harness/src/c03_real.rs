//! C03 — `(rtree …)` cases: real `Block`/`Loop`/`Branch`/`Scope` trees whose loop / branch conditions are the
//! SHIPPED conditions (`LessThanN::iterations` / `::evaluations`, `EveryN::iterations`, `RandomChance` with
//! p ∈ {0, 1}, `And`/`Or`/`Not` over them and over scripted conditions) at their boundary parameters, and
//! whose leaves include `HoldLeaf` (works on a caller state inside a `State::holding` closure) and the real
//! `Logger` (holds the caller's `LogConfig` while it initialises / evaluates the log triggers).
//! After `Configuration::run` the trace, the result, the scope depth and EVERY state type at EVERY level of
//! the caller's state (0 Iterations, 1–3 K1..K3, 4 Evaluations, 5/6 Progress<ValueOf<Iterations|Evaluations>>
//! (presence only), 7 LogConfig, 8 Log (number of steps), 9 Random) are printed.
use super::*;
use mahf::lens::ValueOf;
use mahf::logging::{Log, LogConfig};
use mahf::state::common::Progress;
use mahf::Random;

pub fn is_real(x: &Sx) -> bool {
    x.items().and_then(|p| p.first()).map(|t| matches!(t.head(), Some(("rtree", _)))).unwrap_or(false)
}

// ---------------------------------------------------------------- well-formedness (every loop stops)
fn stops(x: &Sx, conds: &HashMap<u64, (bool, Vec<bool>)>) -> bool {
    let (h, a) = x.head().expect("cond");
    match h {
        "c" => !conds.get(&a[0].nat().unwrap()).map(|e| e.0).unwrap_or(false),
        "lt" => a[0].nat().unwrap() == 0,
        "every" => a[0].nat().unwrap() == 0,
        "chance" => a[0].atom() == Some("f"),
        "and" => a.iter().any(|c| stops(c, conds)),
        "or" => a.iter().all(|c| stops(c, conds)),
        _ => false,
    }
}
fn loops_stop_r(x: &Sx, conds: &HashMap<u64, (bool, Vec<bool>)>) -> bool {
    let (h, a) = x.head().expect("node");
    match h {
        "blk" => a.iter().all(|k| loops_stop_r(k, conds)),
        "while" => stops(&a[0], conds) && loops_stop_r(&a[1], conds),
        "if" => loops_stop_r(&a[1], conds),
        "ifelse" => loops_stop_r(&a[1], conds) && loops_stop_r(&a[2], conds),
        "scope" => loops_stop_r(&a[0], conds),
        _ => true,
    }
}
fn act_key(t: &Sx) -> u64 {
    let (k, v) = t.head().unwrap();
    if k == "need" { v[0].nat().unwrap() } else { v[1].nat().unwrap() }
}
/// No leaf touches the loop counter and no `HoldLeaf` holds it (so counting loops stop).
fn counter_free(x: &Sx) -> bool {
    let (h, a) = x.head().expect("node");
    match h {
        "leaf" => a[1..].iter().all(|t| act_key(t) != 0),
        "hold" => a[1].nat().unwrap() != 0 && a[2..].iter().all(|t| act_key(t) != 0),
        "logger" => true,
        "blk" => a.iter().all(counter_free),
        "while" | "if" => counter_free(&a[1]),
        "ifelse" => counter_free(&a[1]) && counter_free(&a[2]),
        _ => counter_free(&a[0]),
    }
}

// ---------------------------------------------------------------- one case
pub fn run_case_real(input: &Sx) -> Ran {
    let parts = input.items().expect("case");
    let tree = &parts[0].head().unwrap().1[0];
    let mut shared = Shared::default();
    for e in parts[1].head().unwrap().1 {
        let (h, a) = e.head().unwrap();
        match h {
            "cond" => {
                let vals = a[2..].iter().map(|v| v.atom() == Some("t")).collect();
                shared.conds.insert(a[0].nat().unwrap(), (a[1].atom() == Some("t"), vals));
            }
            "fail" => { shared.fails.insert((ph_of(a[0].atom().unwrap()), a[1].nat().unwrap(), a[2].nat().unwrap())); }
            _ => panic!("bad script entry"),
        }
    }
    if !(loops_stop_r(tree, &shared.conds) && counter_free(tree)) {
        return Ran { out: "((res illformed))".into(), trace: vec![] };
    }
    let sh: Sh = Arc::new(Mutex::new(shared));
    let triggers = parts[3].head().unwrap().1;
    // the prepared caller state; at its bottom a pass budget: the crate's `--cfg mahf_verif` observer hook is
    // called around every block child and every loop pass, so a loop that a defect keeps running (a counter
    // that is reset over and over) ends as a `panic` outcome instead of hanging the harness
    let mut state: State<P> = State::new();
    let mut calls = 0u64;
    state.insert(mahf::verif::StepObserver::<P>(Box::new(move |_, _, _, _| {
        calls += 1;
        if calls > 20_000 { panic!("runaway loop"); }
    })));
    for op in parts[2].head().unwrap().1 {
        let (h, a) = op.head().unwrap();
        match h {
            "ins" => {
                let v = a[1].nat().unwrap();
                match a[0].nat().unwrap() {
                    0 => { state.insert(Iterations(v as u32)); }
                    1 => { state.insert(K1(v)); }
                    2 => { state.insert(K2(v)); }
                    3 => { state.insert(K3(v)); }
                    4 => { state.insert(Evaluations(v as u32)); }
                    7 => {
                        // the caller's log configuration: one rule per trigger of `(logcfg …)`
                        let mut cfg = LogConfig::<P>::new();
                        for t in triggers { cfg.with(cond(t, &sh), ValueOf::<Iterations>::entry()); }
                        state.insert(cfg);
                    }
                    8 => { state.insert(Log::new()); }
                    9 => { state.insert(Random::new(0)); }
                    k => panic!("bad pre key {k}"),
                }
            }
            "push" => { state = State::from(StateRegistry::from(state).into_child()); }
            _ => panic!("bad pre op"),
        }
    }
    let config: Configuration<P> = if is_blk(tree) {
        fill(Configuration::builder(), kids(tree), &sh).build()
    } else {
        Configuration::new(comp(tree, &sh))
    };
    let problem = TagProblem;
    let res = classify(catch(|| config.run(&problem, &mut state)));
    let mut trace = sh.lock().unwrap().trace.clone();
    if res == "panic" { trace.truncate(300); }   // a runaway loop: the beginning of the trace says enough
    // every state type at every level of the caller's state
    let mut scopes = vec![];
    let mut cur: Option<&StateRegistry> = Some(&state);
    while let Some(r) = cur {
        let mut kv = vec![];
        if r.contains_at_top::<Iterations>() { kv.push(format!("(0 {})", r.try_get_value::<Iterations>().map(|v| v as i64).unwrap_or(-1))); }
        if r.contains_at_top::<K1>() { kv.push(format!("(1 {})", r.try_get_value::<K1>().map(|v| v as i64).unwrap_or(-1))); }
        if r.contains_at_top::<K2>() { kv.push(format!("(2 {})", r.try_get_value::<K2>().map(|v| v as i64).unwrap_or(-1))); }
        if r.contains_at_top::<K3>() { kv.push(format!("(3 {})", r.try_get_value::<K3>().map(|v| v as i64).unwrap_or(-1))); }
        if r.contains_at_top::<Evaluations>() { kv.push(format!("(4 {})", r.try_get_value::<Evaluations>().map(|v| v as i64).unwrap_or(-1))); }
        // the two `Progress` states: where they are, not their value (that is C10's)
        if r.contains_at_top::<Progress<ValueOf<Iterations>>>() { kv.push("(5 p)".to_string()); }
        if r.contains_at_top::<Progress<ValueOf<Evaluations>>>() { kv.push("(6 p)".to_string()); }
        if r.contains_at_top::<LogConfig<P>>() { kv.push("(7 0)".to_string()); }
        if r.contains_at_top::<Log>() {
            let n = r.try_borrow::<Log>().ok().and_then(|l| serde_json::to_value(&*l).ok())
                .and_then(|v| v.as_array().map(|a| a.len() as i64)).unwrap_or(-1);
            kv.push(format!("(8 {n})"));
        }
        if r.contains_at_top::<Random>() { kv.push("(9 0)".to_string()); }
        scopes.push(list(kv));
        cur = r.parent();
    }
    let out = list([
        tagged("trace", trace.iter().map(|(p, i)| format!("({} {})", PH[*p as usize], i))),
        format!("(res {res})"),
        format!("(depth {})", scopes.len()),
        tagged("dump", scopes),
    ]);
    Ran { out, trace }
}

// ---------------------------------------------------------------- generators
fn case_str_r(tree: &str, script: &[String], pre: &str, logcfg: &str) -> String {
    format!("((rtree {tree}) {} {pre} {logcfg})", tagged("script", script.iter().cloned()))
}

/// The fault-free case and one case per fault point of its trace (sampled down to `max_faults`).
fn with_faults_real(em: &mut Emit, fam: &str, tree: &str, script: &[String], pre: &str, logcfg: &str, rng: &mut Sm, max_faults: usize) {
    let input = case_str_r(tree, script, pre, logcfg);
    let r = run_case_real(&Sx::parse(&input).unwrap());
    em.out.case(fam, &input, &r.out);
    let mut seen: HashMap<(u8, u64), u64> = HashMap::new();
    let mut points = vec![];
    for (p, i) in &r.trace {
        let c = seen.entry((*p, *i)).or_insert(0);
        points.push((*p, *i, *c));
        *c += 1;
    }
    while points.len() > max_faults {
        let k = rng.below(points.len() as u64) as usize;
        points.swap_remove(k);
    }
    for (p, i, o) in points {
        let mut sc = script.to_vec();
        sc.push(format!("(fail {} {i} {o})", PH[p as usize]));
        let input = case_str_r(tree, &sc, pre, logcfg);
        let r = run_case_real(&Sx::parse(&input).unwrap());
        em.out.case(&fault_site(fam, p, i), &input, &r.out);
    }
}

/// Renders shapes with shipped conditions, counter-free leaves, `HoldLeaf`s and `Logger`s.
struct RRen<'a> { rng: &'a mut Sm, next_leaf: u64, next_cond: u64, script_ids: Vec<u64> }
impl<'a> RRen<'a> {
    fn new(rng: &'a mut Sm) -> RRen<'a> { RRen { rng, next_leaf: 1, next_cond: 101, script_ids: vec![] } }
    fn acts(&mut self, id: u64) -> String {
        let v = 10 * id;
        let k = self.rng.range(1, 4);
        match self.rng.below(14) {
            0 | 1 | 2 => String::new(),
            3 => format!(" (ins exec {k} {v})"),
            4 => format!(" (set exec {k} {v})"),
            5 => format!(" (rem exec {k})"),
            6 => format!(" (ins init {k} {v}) (need {k})"),
            7 => format!(" (need {k})"),
            8 => format!(" (ins init {k} {v})"),
            9 => format!(" (set init {k} {v})"),
            10 => format!(" (set exec 4 {})", id % 4),
            11 => format!(" (ins exec 4 {})", id % 3),
            12 => format!(" (ins exec 2 {v}) (set exec 1 {})", v + 1),
            _ => format!(" (rem init {k}) (set exec {k} {v})"),
        }
    }
    fn leaf(&mut self) -> String {
        let id = self.next_leaf;
        self.next_leaf += 1;
        match self.rng.below(10) {
            0 | 1 => { let k = self.rng.range(1, 3); let a = self.acts(id); format!("(hold {id} {k}{a})") }
            2 => "(logger)".to_string(),
            _ => { let a = self.acts(id); format!("(leaf {id}{a})") }
        }
    }
    fn script(&mut self) -> String {
        let id = self.next_cond;
        self.next_cond += 1;
        self.script_ids.push(id);
        format!("(c {id})")
    }
    /// A condition that is false from some pass on.
    fn loop_cond(&mut self) -> String {
        let n = self.rng.below(4);
        let m = self.rng.below(4);
        match self.rng.below(16) {
            0..=4 => format!("(lt 0 {n})"),
            5 => format!("(and (lt 0 {}) (lt 4 {m}))", n.max(1)),
            6 => format!("(and (lt 0 {}) (every {m}))", n + 1),
            7 => "(every 0)".to_string(),
            8 => "(chance f)".to_string(),
            9 => format!("(and (lt 0 {n}) (chance t))"),
            10 => format!("(or (lt 0 {n}) (lt 0 {m}))"),
            11 => format!("(and (lt 0 {}) (not (lt 0 {m})))", n + 1),
            12 => { let c = self.script(); format!("(and (lt 0 {}) {c})", n + 1) }
            13 => { let c = self.script(); format!("(or {c} (lt 0 {n}))") }
            14 => format!("(and (lt 0 {n}) (and))"),
            _ => self.script(),
        }
    }
    fn branch_cond(&mut self) -> String {
        let n = self.rng.below(4);
        match self.rng.below(14) {
            0 | 1 => format!("(lt 0 {n})"),
            2 => format!("(lt 4 {n})"),
            3 | 4 => format!("(every {n})"),
            5 => "(chance t)".to_string(),
            6 => "(chance f)".to_string(),
            7 => format!("(not (lt 0 {n}))"),
            8 => "(and)".to_string(),
            9 => "(or)".to_string(),
            10 => format!("(or (every {n}) (lt 4 1))"),
            11 => { let c = self.script(); format!("(and {c} (not (every 2)))") }
            _ => self.script(),
        }
    }
    fn node(&mut self, s: &Shape) -> String {
        match s {
            Shape::Leaf => self.leaf(),
            Shape::Blk(v) => tagged("blk", v.iter().map(|k| self.node(k)).collect::<Vec<_>>()),
            Shape::While(b) => { let c = self.loop_cond(); format!("(while {c} {})", self.node(b)) }
            Shape::If(b) => { let c = self.branch_cond(); format!("(if {c} {})", self.node(b)) }
            Shape::IfElse(a, b) => { let c = self.branch_cond(); format!("(ifelse {c} {} {})", self.node(a), self.node(b)) }
            Shape::Scope(b) => format!("(scope {})", self.node(b)),
        }
    }
}

/// Caller states: `Random` always; counters, held states and the log configuration at various levels.
fn pre_r(rng: &mut Sm) -> String {
    let log = if rng.chance(3, 4) { " (ins 7 0) (ins 8 0)" } else { "" };
    match rng.below(8) {
        0 => format!("(pre (ins 9 0){log})"),
        1 => format!("(pre (ins 9 0) (ins 4 1) (ins 1 100){log})"),
        2 => format!("(pre (ins 9 0) (ins 1 100) (ins 2 200) (ins 3 300){log} (ins 4 0))"),
        3 => format!("(pre (ins 9 0){log} (ins 1 100) (ins 4 2) (push) (ins 2 200))"),
        4 => format!("(pre (ins 9 0) (ins 0 7) (ins 4 0) (ins 1 100) (ins 3 300){log} (push))"),
        5 => format!("(pre (ins 9 0) (ins 2 200) (push){log} (ins 1 100) (ins 2 201) (push) (ins 4 3))"),
        6 => format!("(pre (ins 9 0) (ins 1 100) (ins 2 200) (push) (ins 1 101) (ins 4 1){log})"),
        _ => format!("(pre (ins 0 3) (ins 9 0) (ins 1 100){log} (push) (push) (ins 3 300))"),
    }
}

fn logcfg_r(rng: &mut Sm, ren_ids: &mut Vec<u64>) -> String {
    let n = rng.below(4);
    let mut out = vec![];
    for j in 0..n {
        let id = 201 + j;
        out.push(match rng.below(8) {
            0 | 1 | 2 => { ren_ids.push(id); format!("(c {id})") }
            3 => format!("(lt 0 {})", rng.below(3)),
            4 => format!("(every {})", rng.below(3)),
            5 => format!("(lt 4 {})", rng.below(3)),
            6 => { ren_ids.push(id); format!("(and (c {id}) (every 2))") }
            _ => "(chance t)".to_string(),
        });
    }
    tagged("logcfg", out)
}

fn scripts_for(ids: &[u64], rng: &mut Sm) -> Vec<String> {
    ids.iter().map(|id| {
        let seq = SEQS[rng.below(8) as usize];
        script_entry(*id, false, seq)
    }).collect()
}

pub fn generate(em: &mut Emit, rng: &mut Sm, thorough: bool) {
    // A. boundary parameters of the shipped conditions, systematically: condition x position x caller state
    let mut loop_conds: Vec<String> = vec![];
    for n in 0..=3 { loop_conds.push(format!("(lt 0 {n})")); }
    for n in 0..=3 { loop_conds.push(format!("(and (lt 0 2) (lt 4 {n}))")); }
    for n in 0..=3 { loop_conds.push(format!("(and (lt 0 3) (every {n}))")); }
    for c in ["(every 0)", "(chance f)", "(and (lt 0 2) (chance t))", "(and (lt 0 2) (and))", "(or)", "(or (lt 0 1) (lt 0 2))",
        "(or (lt 0 0) (lt 0 0))", "(and (lt 0 2) (not (lt 0 1)))", "(and (lt 0 2) (not (chance f)))", "(and (lt 0 0) (chance t))",
        "(and (lt 0 3) (c 101))", "(or (c 101) (lt 0 1))", "(and (lt 0 1) (lt 0 0))", "(not (not (lt 0 0)))"] {
        // `(not (not …))` does not pass the syntactic stop check: it is reported as illformed and not run
        loop_conds.push(c.to_string());
    }
    let mut branch_conds = loop_conds.clone();
    for n in 0..=3 { branch_conds.push(format!("(lt 4 {n})")); branch_conds.push(format!("(every {n})")); branch_conds.push(format!("(not (lt 0 {n}))")); }
    for c in ["(chance t)", "(and)", "(not (every 2))", "(or (every 0) (lt 4 0))"] { branch_conds.push(c.to_string()); }
    let pres = [
        "(pre (ins 9 0))",
        "(pre (ins 9 0) (ins 4 1) (ins 1 100))",
        "(pre (ins 9 0) (ins 0 7) (ins 4 0) (ins 1 100) (push))",
        "(pre (ins 4 2) (ins 9 0) (push) (ins 1 100) (ins 2 200) (push))",
    ];
    let b = "(leaf 2 (ins exec 1 20) (set exec 4 3))";
    let loop_pos: Vec<Box<dyn Fn(&str) -> String>> = vec![
        Box::new(|c| format!("(blk (leaf 1) (while {c} (blk {b})) (leaf 3 (set exec 1 30)))")),
        Box::new(|c| format!("(blk (leaf 1) (scope (blk (while {c} (blk {b})) (leaf 3))) (leaf 4 (ins exec 2 40)))")),
        Box::new(|c| format!("(blk (while (lt 0 2) (blk (leaf 1) (while {c} (blk {b})) (leaf 3))) (leaf 4))")),
        Box::new(|c| format!("(blk (while (lt 0 2) (blk (leaf 1) (scope (blk (while {c} (blk {b})))) (leaf 3))) (leaf 4))")),
        Box::new(|c| format!("(blk (if (chance t) (blk (while {c} {b}) (leaf 3))) (leaf 4))")),
        Box::new(|c| format!("(while {c} {b})")),
        Box::new(|c| format!("(blk (while {c} (blk)) (leaf 3))")),
    ];
    let branch_pos: Vec<Box<dyn Fn(&str) -> String>> = vec![
        Box::new(|c| format!("(blk (leaf 1) (if {c} (blk {b})) (leaf 3))")),
        Box::new(|c| format!("(blk (leaf 1) (ifelse {c} (blk {b}) (blk (leaf 5 (ins exec 3 50)))) (leaf 3))")),
        Box::new(|c| format!("(blk (while (lt 0 3) (blk (if {c} (blk {b})) (ifelse {c} (leaf 5) (leaf 6)))) (leaf 4))")),
        Box::new(|c| format!("(blk (scope (blk (while (lt 0 2) (ifelse {c} {b} (leaf 5))))) (leaf 4))")),
    ];
    let scripts: [Vec<String>; 3] = [vec![], vec![script_entry(101, false, &[true, true])], vec![script_entry(101, false, &[false, true])]];
    for (ci, c) in loop_conds.iter().enumerate() {
        for (pi, pos) in loop_pos.iter().enumerate() {
            for (qi, pre) in pres.iter().enumerate() {
                if !thorough && (ci + pi + qi) % 2 == 1 && pi > 0 { continue; }
                let tree = pos(c);
                let script = if c.contains("(c 101)") { scripts[1 + (pi + qi) % 2].clone() } else { vec![] };
                with_faults_real(em, "real-bound", &tree, &script, pre, "(logcfg)", rng, if thorough { 12 } else { 4 });
            }
        }
    }
    for (ci, c) in branch_conds.iter().enumerate() {
        for (pi, pos) in branch_pos.iter().enumerate() {
            for (qi, pre) in pres.iter().enumerate() {
                if !thorough && (ci + pi + qi) % 2 == 1 && pi > 0 { continue; }
                let tree = pos(c);
                let script = if c.contains("(c 101)") { scripts[1 + (pi + qi) % 2].clone() } else { vec![] };
                with_faults_real(em, "real-bound", &tree, &script, pre, "(logcfg)", rng, if thorough { 12 } else { 4 });
            }
        }
    }
    // B. faults raised inside `State::holding` closures at scope depth 0..3: a `HoldLeaf` / the `Logger` inside
    //    `d` nested scopes (each with a local state), plain / in a counting loop / in a branch; the held state
    //    (K1..K3, the `LogConfig`) owned by the caller at its top or a lower level, possibly shadowed
    let hold_pres = [
        "(pre (ins 9 0) (ins 1 100) (ins 2 200) (ins 3 300) (ins 7 0) (ins 8 0) (ins 4 0))",
        "(pre (ins 9 0) (ins 1 100) (ins 7 0) (ins 8 0) (push) (ins 2 200) (ins 3 300) (ins 4 1))",
        "(pre (ins 7 0) (ins 8 0) (ins 1 100) (ins 2 200) (push) (ins 1 101) (ins 9 0) (push))",
        "(pre (ins 9 0) (ins 8 0) (ins 3 300) (push) (ins 7 0) (ins 1 100) (ins 2 200))",
    ];
    let logcfgs = ["(logcfg (c 201))", "(logcfg (c 201) (lt 0 2))", "(logcfg (every 2) (c 201) (c 202))", "(logcfg (lt 4 1) (and (c 201) (chance t)))", "(logcfg)"];
    let log_scripts: [Vec<String>; 3] = [
        vec![script_entry(201, false, &[true, true, true]), script_entry(202, false, &[false, true])],
        vec![script_entry(201, true, &[false, true]), script_entry(202, false, &[])],
        vec![script_entry(201, false, &[]), script_entry(202, true, &[])],
    ];
    /// `x` inside `d` nested scopes, each with a local state of a type other than the held `hk`
    /// (every third one shadows a state of the caller).
    fn nest(d: usize, hk: u64, x: &str) -> String {
        if d == 0 { return x.to_string(); }
        let k = 1 + ((hk + (d as u64 % 2)) % 3);
        format!("(scope (blk (leaf {} (ins init {k} {})) {}))", 10 + d, 1000 + d, nest(d - 1, hk, x))
    }
    let holders = [
        (1, "(hold 5 1)"), (2, "(hold 5 2 (set exec 1 55))"), (3, "(hold 5 3 (ins exec 2 56))"), (1, "(hold 5 1 (ins exec 1 57))"),
        (2, "(hold 5 2 (rem exec 1))"), (0, "(logger)"), (1, "(blk (logger) (hold 5 1) (logger))"),
    ];
    for d in 0..=3 {
        for (hi, (hk, h)) in holders.iter().enumerate() {
            for w in 0..4 {
                for (qi, pre) in hold_pres.iter().enumerate() {
                    if !thorough && (d + hi + w + qi) % 2 == 1 { continue; }
                    let inner = nest(d, *hk, h);
                    let tree = match w {
                        0 => format!("(blk (leaf 1) {inner} (leaf 2 (set exec 2 20)))"),
                        1 => format!("(blk (while (lt 0 3) (blk (leaf 1) {inner} (leaf 2))) (leaf 3))"),
                        2 => format!("(blk (if (every 0) (blk {inner} (leaf 2))) (leaf 3))"),
                        _ => format!("(blk (scope (blk (while (lt 0 2) {inner}))) (leaf 3))"),
                    };
                    let lc = logcfgs[(d + hi + w + qi) % logcfgs.len()];
                    let script = log_scripts[(hi + w + qi) % 3].clone();
                    with_faults_real(em, "hold", &tree, &script, pre, lc, rng, if thorough { 24 } else { 10 });
                }
            }
        }
    }
    // C. every small shape, rendered with shipped conditions, holding leaves and loggers
    let max_nodes = if thorough { 5 } else { 4 };
    let mut memo = vec![None; 8];
    for n in 2..=max_nodes {
        let all = shapes(n, &mut memo);
        for shape in all.iter() {
            let variants = if n <= 3 { 3 } else if n == 4 { 2 } else { 1 };
            for _ in 0..variants {
                let (tree, mut ids) = { let mut r = RRen::new(rng); let t = r.node(shape); (t, r.script_ids) };
                let lc = logcfg_r(rng, &mut ids);
                let script = scripts_for(&ids, rng);
                let pre = pre_r(rng);
                with_faults_real(em, "real-exh", &tree, &script, &pre, &lc, rng, if thorough { 12 } else { 6 });
            }
        }
    }
    // D. seeded random larger trees
    let n_rand = if thorough { 2000 } else { 200 };
    let mut made = 0;
    while made < n_rand {
        let mut budget = rng.range(10, 40) as i64;
        let shape = Shape::Blk((0..rng.range(2, 5)).map(|_| rand_shape(rng, &mut budget, 1)).collect());
        let sz = size(&shape);
        if !(8..=50).contains(&sz) { continue; }
        made += 1;
        let (tree, mut ids) = { let mut r = RRen::new(rng); let t = r.node(&shape); (t, r.script_ids) };
        let lc = logcfg_r(rng, &mut ids);
        let script = scripts_for(&ids, rng);
        let pre = pre_r(rng);
        with_faults_real(em, "real-rand", &tree, &script, &pre, &lc, rng, if thorough { 8 } else { 6 });
    }
}
