//! All 21 shipped heuristic templates, constructed from the real constructors over a small grid of
//! valid parameters and problem instances, with a generic way to *use* the built configuration
//! (run it under a step observer, serialise it, …). Shared by C05 C06 C07 C08 C15 C16 C18 C19 C20.
use std::sync::{Arc, Mutex};

use mahf::conditions::LessThanN;
use mahf::heuristics::*;
use mahf::problems::{ObjectiveFunction, Parallel, Sequential};
use mahf::verif::{Phase, StepObserver};
use mahf::{Configuration, Random, SingleObjectiveProblem, State};

use crate::problems::{OneMax, Probe, Sphere, Tsp};

/// What the harness needs from a test problem beyond mahf's own traits.
pub trait HProblem: SingleObjectiveProblem + ObjectiveFunction + Clone + Send + Sync + 'static {
    /// The objective function *without* counting the call.
    fn raw_f(&self, s: &Self::Encoding) -> f64;
    fn probe(&self) -> &Probe;
    /// Canonical S-expression of a solution.
    fn enc(s: &Self::Encoding) -> String;
    fn kind(&self) -> &'static str;
}
impl HProblem for Sphere {
    fn raw_f(&self, s: &Vec<f64>) -> f64 { self.f(s) }
    fn probe(&self) -> &Probe { &self.probe }
    fn enc(s: &Vec<f64>) -> String { crate::list(s.iter().map(|v| crate::fx(*v))) }
    fn kind(&self) -> &'static str { "real" }
}
impl HProblem for OneMax {
    fn raw_f(&self, s: &Vec<bool>) -> f64 { self.f(s) }
    fn probe(&self) -> &Probe { &self.probe }
    fn enc(s: &Vec<bool>) -> String { crate::list(s.iter().map(|v| crate::b(*v))) }
    fn kind(&self) -> &'static str { "binary" }
}
impl HProblem for Tsp {
    fn raw_f(&self, s: &Vec<usize>) -> f64 { self.f(s) }
    fn probe(&self) -> &Probe { &self.probe }
    fn enc(s: &Vec<usize>) -> String { crate::nats(s.iter().map(|v| *v as u64)) }
    fn kind(&self) -> &'static str { "perm" }
}

pub const TEMPLATES: [&str; 21] = [
    "real_ga", "binary_ga", "real_es", "real_de", "real_pso", "real_sa", "permutation_sa", "real_ls",
    "permutation_ls", "real_ils", "permutation_ils", "real_rs", "permutation_rs", "real_rw",
    "permutation_rw", "real_iwo", "real_fa", "real_bh", "real_cro", "ant_system", "max_min_ant_system",
];

/// Number of parameter points per template (0..2: ordinary values; 3: degenerate but valid values:
/// zero offspring, a single individual/particle/ant, rates 0, factors 1, ...).
pub const N_VARIANTS: u32 = 4;
/// Number of problem instances per problem kind.
pub const N_INSTANCES: u32 = 4;

pub fn kind_of(name: &str) -> &'static str {
    match name {
        "binary_ga" => "binary",
        "permutation_sa" | "permutation_ls" | "permutation_ils" | "permutation_rs" | "permutation_rw"
        | "ant_system" | "max_min_ant_system" => "perm",
        _ => "real",
    }
}

pub fn sphere_instance(i: u32) -> Sphere {
    match i % N_INSTANCES {
        0 => Sphere::new(2, -5.0, 5.0, 0.0),
        1 => Sphere::new(1, -1.0, 1.0, 0.25),
        2 => Sphere::new(5, -2.0, 3.0, 1.0),
        _ => Sphere::new(3, -1.0, 1.0, 2.0), // optimum outside the domain
    }
}
pub fn onemax_instance(i: u32) -> OneMax {
    OneMax::new([8, 5, 12, 3][(i % N_INSTANCES) as usize])
}
pub fn tsp_instance(i: u32) -> Tsp {
    match i % N_INSTANCES {
        0 => Tsp::random(5, 11, 9.0),
        1 => Tsp::random(8, 12, 1.0e3),
        2 => Tsp::random(6, 13, 1.0e-3),
        _ => Tsp::random(7, 14, 1.0e6), // very unequal distances
    }
}

/// Human-readable parameter description (goes into case lines / evidence).
pub fn describe(name: &str, variant: u32) -> String {
    format!("({} v{})", name, variant % N_VARIANTS)
}

/// The expected population size bounds `(min, max)` the template's parameters prescribe for the
/// *current* population at loop-pass boundaries, and the expected height there.
pub fn prescribed_size(name: &str, variant: u32) -> (usize, usize) {
    let v = variant % N_VARIANTS;
    match name {
        "real_ga" | "binary_ga" => { let n = [6, 9, 5, 2][v as usize]; (n, n) }
        "real_es" => { let n = [3, 5, 1, 2][v as usize]; (n, n) }
        "real_de" => { let n = [6, 8, 10, 4][v as usize]; (n, n) }
        "real_pso" => { let n = [4, 1, 7, 2][v as usize]; (n, n) }
        "real_iwo" => { let (i, m) = [(3, 6), (2, 5), (4, 4), (1, 1)][v as usize]; (i.min(m), m) }
        "real_fa" => { let n = [4, 6, 3, 1][v as usize]; (n, n) }
        "real_bh" => { let n = [4, 6, 2, 1][v as usize]; (n, n) }
        "real_cro" => (1, usize::MAX),
        "ant_system" | "max_min_ant_system" => { let n = [3, 5, 1, 1][v as usize] + 1; (n, n) }
        _ => (1, 1),
    }
}

/// Something that wants to do a thing with a built configuration, whatever its problem type.
pub trait ConfigUser {
    type Out;
    fn use_config<P: HProblem>(self, config: &Configuration<P>, problem: &P) -> Self::Out;
}

/// Builds template `name` at parameter point `variant` for problem instance `instance`, bounded by
/// `iters` loop iterations, and hands it to `user`. `Err` = the constructor itself refused.
pub fn with_template<U: ConfigUser>(name: &str, variant: u32, instance: u32, iters: u32, user: U) -> Result<U::Out, String> {
    let v = (variant % N_VARIANTS) as usize;
    macro_rules! go {
        ($problem:expr, $cfg:expr) => {{
            let problem = $problem;
            let cfg = $cfg.map_err(|e| format!("{e}"))?;
            Ok(user.use_config(&cfg, &problem))
        }};
    }
    match name {
        "real_ga" => go!(sphere_instance(instance), ga::real_ga::<Sphere>(
            ga::RealProblemParameters {
                population_size: [6, 9, 5, 2][v], tournament_size: [2, 3, 4, 2][v], pm: [1.0, 0.5, 0.1, 0.0][v],
                deviation: [0.1, 1.0, 0.01, 0.5][v], pc: [0.8, 1.0, 0.0, 0.5][v],
            }, LessThanN::iterations(iters))),
        "binary_ga" => go!(onemax_instance(instance), ga::binary_ga::<OneMax>(
            ga::BinaryProblemParameters {
                population_size: [6, 9, 5, 2][v], tournament_size: [2, 3, 4, 1][v], rm: [0.1, 0.5, 1.0, 0.0][v],
                pc: [0.8, 1.0, 0.0, 0.5][v], pm: [1.0, 0.5, 0.0, 1.0][v],
            }, LessThanN::iterations(iters))),
        "real_es" => go!(sphere_instance(instance), es::real_mu_plus_lambda_es::<Sphere, ()>(
            es::RealProblemParameters { population_size: [3, 5, 1, 2][v], lambda: [6, 5, 1, 0][v], deviation: [0.1, 1.0, 0.01, 0.1][v] },
            LessThanN::iterations(iters))),
        "real_de" => go!(sphere_instance(instance), de::real_de::<Sphere>(
            de::RealProblemParameters { population_size: [6, 8, 10, 4][v], y: [1, 1, 2, 1][v], f: [0.5, 1.0, 0.2, 0.0][v], pc: [0.9, 0.5, 0.1, 1.0][v] },
            LessThanN::iterations(iters))),
        "real_pso" => go!(sphere_instance(instance), pso::real_pso::<Sphere>(
            pso::RealProblemParameters {
                num_particles: [4, 1, 7, 2][v], start_weight: [0.9, 0.5, 0.0, 1.0][v], end_weight: [0.4, 0.5, 1.0, 1.0][v],
                c_one: [1.7, 0.0, 2.0, 0.0][v], c_two: [1.7, 2.0, 0.0, 0.0][v], v_max: [1.0, 0.001, 10.0, 0.5][v],
            }, LessThanN::iterations(iters))),
        "real_sa" => go!(sphere_instance(instance), sa::real_sa::<Sphere>(
            sa::RealProblemParameters { t_0: [1.0, 100.0, 1e-3, 1e6][v], alpha: [0.9, 0.99, 0.5, 0.0][v], deviation: [0.1, 1.0, 0.01, 1e-6][v] },
            LessThanN::iterations(iters))),
        "permutation_sa" => go!(tsp_instance(instance), sa::permutation_sa::<Tsp>(
            sa::PermutationProblemParameters { t_0: [1.0, 100.0, 1e-3, 1e6][v], alpha: [0.9, 0.99, 0.5, 0.0][v], num_swap: [2, 3, 4, 5][v] },
            LessThanN::iterations(iters))),
        "real_ls" => go!(sphere_instance(instance), ls::real_ls::<Sphere>(
            ls::RealProblemParameters { n_neighbors: [3, 1, 6, 0][v], deviation: [0.1, 1.0, 0.01, 0.1][v] },
            LessThanN::iterations(iters))),
        "permutation_ls" => go!(tsp_instance(instance), ls::permutation_ls::<Tsp>(
            ls::PermutationProblemParameters { num_neighbors: [3, 1, 6, 0][v], num_swap: [2, 3, 4, 2][v] },
            LessThanN::iterations(iters))),
        "real_ils" => go!(sphere_instance(instance), ils::real_ils::<Sphere>(
            ils::RealProblemParameters {
                ls_params: ls::RealProblemParameters { n_neighbors: [3, 1, 6, 0][v], deviation: [0.1, 1.0, 0.01, 0.1][v] },
                ls_condition: LessThanN::iterations([2, 3, 1, 0][v]),
            }, LessThanN::iterations(iters))),
        "permutation_ils" => go!(tsp_instance(instance), ils::permutation_ils::<Tsp>(
            ils::PermutationProblemParameters {
                ls_params: ls::PermutationProblemParameters { num_neighbors: [3, 1, 6, 0][v], num_swap: [2, 3, 4, 2][v] },
                ls_condition: LessThanN::iterations([2, 3, 1, 0][v]),
            }, LessThanN::iterations(iters))),
        "real_rs" => go!(sphere_instance(instance), rs::real_rs::<Sphere>(LessThanN::iterations(iters))),
        "permutation_rs" => go!(tsp_instance(instance), rs::permutation_rs::<Tsp>(LessThanN::iterations(iters))),
        "real_rw" => go!(sphere_instance(instance), rw::real_rw::<Sphere>(
            rw::RealProblemParameters { deviation: [0.1, 1.0, 0.01, 1e-9][v] }, LessThanN::iterations(iters))),
        "permutation_rw" => go!(tsp_instance(instance), rw::permutation_random_walk::<Tsp>(
            rw::PermutationProblemParameters { num_swap: [2, 3, 4, 5][v] }, LessThanN::iterations(iters))),
        "real_iwo" => go!(sphere_instance(instance), iwo::real_iwo::<Sphere>(
            iwo::RealProblemParameters {
                initial_population_size: [3, 2, 4, 1][v], max_population_size: [6, 5, 4, 1][v],
                min_number_of_seeds: [0, 1, 2, 0][v], max_number_of_seeds: [3, 1, 5, 1][v],
                initial_deviation: [0.5, 1.0, 0.6, 0.2][v], final_deviation: [0.01, 0.1, 0.6, 0.0][v], modulation_index: [3, 1, 2, 1][v],
            }, LessThanN::iterations(iters))),
        "real_fa" => go!(sphere_instance(instance), fa::real_fa::<Sphere>(
            fa::RealProblemParameters { pop_size: [4, 6, 3, 1][v], alpha: [0.25, 0.5, 0.0, 0.0][v], beta: [1.0, 0.5, 0.2, 0.0][v], gamma: [0.01, 1.0, 0.1, 0.0][v], delta: [0.97, 0.9, 1.0, 0.5][v] },
            LessThanN::iterations(iters))),
        "real_bh" => go!(sphere_instance(instance), bh::real_bh::<Sphere>(
            bh::RealProblemParameters { num_particles: [4, 6, 2, 1][v] }, LessThanN::iterations(iters))),
        "real_cro" => go!(sphere_instance(instance), cro::real_cro::<Sphere>(
            cro::RealProblemParameters {
                initial_population_size: [4, 6, 3, 2][v], mole_coll: [0.2, 0.5, 0.8, 0.0][v], kinetic_energy_lr: [0.2, 0.5, 0.9, 0.0][v],
                alpha: [5, 2, 50, 0][v], beta: [0.1, 10.0, 1.0, 0.0][v], initial_kinetic_energy: [10.0, 100.0, 1.0, 0.0][v],
                buffer: [0.0, 10.0, 1.0, 0.0][v], on_wall_deviation: [0.1, 0.5, 0.01, 0.1][v], decomposition_deviation: [0.1, 0.5, 1.0, 0.1][v],
            }, LessThanN::iterations(iters))),
        "ant_system" => go!(tsp_instance(instance), aco::ant_system::<Tsp>(
            aco::ASParameters::verif_new([3, 5, 1, 1][v], [1.0, 0.0, 5.0, 0.0][v], [1.0, 5.0, 0.0, 0.0][v], [1.0, 0.5, 2.0, 1.0][v], [0.1, 0.9, 0.5, 0.0][v], [1.0, 10.0, 0.1, 1.0][v]),
            LessThanN::iterations(iters))),
        "max_min_ant_system" => go!(tsp_instance(instance), aco::max_min_ant_system::<Tsp>(
            aco::MMASParameters::verif_new([3, 5, 1, 1][v], [1.0, 0.0, 5.0, 0.0][v], [1.0, 5.0, 0.0, 0.0][v], [1.0, 0.5, 2.0, 1.0][v], [0.1, 0.9, 0.5, 1.0][v], [2.0, 5.0, 3.0, 1.0][v], [0.5, 0.1, 1.0, 0.5][v]),
            LessThanN::iterations(iters))),
        other => Err(format!("unknown template {other}")),
    }
}

#[derive(Clone, Debug, PartialEq)]
pub enum Outcome {
    Ok,
    Err(String),
    Panic,
    CtorErr(String),
}
impl Outcome {
    pub fn tag(&self) -> &'static str {
        match self {
            Outcome::Ok => "ok",
            Outcome::Err(_) => "err",
            Outcome::Panic => "panic",
            Outcome::CtorErr(_) => "ctor-err",
        }
    }
}

/// Observer of a template run. `step` is called before/after every child of every `Block` and
/// before/after every loop pass (name `mahf::verif::LoopPass`); `done` once at the end with the
/// final state (absent if the run failed).
pub trait Visitor: Send + 'static {
    fn step<P: HProblem>(&mut self, phase: Phase, name: &'static str, index: usize, state: &State<P>, problem: &P);
    fn done<P: HProblem>(&mut self, outcome: &Outcome, state: Option<&State<P>>, problem: &P);
}

#[derive(Clone, Copy, PartialEq, Debug)]
pub enum EvalKind {
    Sequential,
    Parallel,
}

struct Runner<V: Visitor> {
    seed: u64,
    eval: EvalKind,
    visitor: V,
}
impl<V: Visitor> ConfigUser for Runner<V> {
    type Out = (V, Outcome);
    fn use_config<P: HProblem>(self, config: &Configuration<P>, problem: &P) -> (V, Outcome) {
        let shared = Arc::new(Mutex::new(self.visitor));
        let (seed, eval) = (self.seed, self.eval);
        let outcome;
        {
            let obs_v = shared.clone();
            let obs_p = problem.clone();
            let r = crate::catch(|| {
                config.optimize_with(problem, |state: &mut State<P>| {
                    state.insert(Random::new(seed));
                    match eval {
                        EvalKind::Sequential => state.insert_evaluator(Sequential::<P>::new()),
                        EvalKind::Parallel => state.insert_evaluator(Parallel::<P>::new()),
                    }
                    state.insert(StepObserver::<P>(Box::new(move |ph, name, idx, st| {
                        obs_v.lock().unwrap().step(ph, name, idx, st, &obs_p);
                    })));
                    Ok(())
                })
            });
            match r {
                None => {
                    outcome = Outcome::Panic;
                    // a panic inside the observer would poison the mutex; recover the visitor anyway
                    let mut g = shared.lock().unwrap_or_else(|e| e.into_inner());
                    g.done::<P>(&outcome, None, problem);
                }
                Some(Err(e)) => {
                    outcome = Outcome::Err(format!("{e}"));
                    shared.lock().unwrap_or_else(|e| e.into_inner()).done::<P>(&outcome, None, problem);
                }
                Some(Ok(state)) => {
                    outcome = Outcome::Ok;
                    shared.lock().unwrap_or_else(|e| e.into_inner()).done(&outcome, Some(&state), problem);
                    drop(state);
                }
            }
        }
        let v = match Arc::try_unwrap(shared) {
            Ok(m) => m.into_inner().unwrap_or_else(|e| e.into_inner()),
            Err(_) => panic!("visitor still shared after the run"),
        };
        (v, outcome)
    }
}

/// Runs a template under `visitor`. Returns the visitor and how the run ended.
pub fn run_template<V: Visitor>(name: &str, variant: u32, instance: u32, iters: u32, seed: u64, eval: EvalKind, visitor: V) -> Result<(V, Outcome), String> {
    with_template(name, variant, instance, iters, Runner { seed, eval, visitor })
}
