//! Shared by the C01 and C02 harness binaries (`#[path]`-included): eight client state types, key → type
//! dispatch, and the execution of one registry operation (`ROp` of `Model/Registry.lean`) on the REAL
//! `State` / `StateRegistry`.
#![allow(dead_code)]
use std::ops::{Deref, DerefMut};

use better_any::TidAble;

use hcommon::*;
use mahf::state::registry::{Entry, MultiStateTuple};
use mahf::{CustomState, State, StateError, StateRegistry};

pub type St = State<'static, ()>;
pub type Rg = StateRegistry<'static>;
pub const NTYPES: u64 = 8;

macro_rules! mk_types { ($($n:ident),*) => {$(
    #[derive(better_any::Tid, Default, Debug)]
    pub struct $n(pub u64);
    impl CustomState<'_> for $n {}
    impl Deref for $n { type Target = u64; fn deref(&self) -> &u64 { &self.0 } }
    impl DerefMut for $n { fn deref_mut(&mut self) -> &mut u64 { &mut self.0 } }
    impl From<u64> for $n { fn from(v: u64) -> Self { $n(v) } }
)*}}
mk_types!(K0, K1, K2, K3, K4, K5, K6, K7);

/// `with_key!(k, T => expr)`: evaluates `expr` with `T` bound to the state type of key `k`.
macro_rules! with_key {
    ($k:expr, $T:ident => $e:expr) => {
        match $k {
            0 => { type $T = $crate::reg::K0; $e }
            1 => { type $T = $crate::reg::K1; $e }
            2 => { type $T = $crate::reg::K2; $e }
            3 => { type $T = $crate::reg::K3; $e }
            4 => { type $T = $crate::reg::K4; $e }
            5 => { type $T = $crate::reg::K5; $e }
            6 => { type $T = $crate::reg::K6; $e }
            7 => { type $T = $crate::reg::K7; $e }
            k => panic!("no such key {k}"),
        }
    };
}

pub fn err_s(e: &StateError) -> String {
    match e {
        StateError::NotFound(_) => "(e notfound)",
        StateError::BorrowConflictImm(..) => "(e conflict_imm)",
        StateError::BorrowConflictMut(..) => "(e conflict_mut)",
        StateError::MultipleBorrowConflict(_) => "(e multi)",
        StateError::RequiredMissing(..) => "(e required)",
    }
    .to_string()
}
pub fn val(v: u64) -> String { format!("(v {v})") }
pub fn opt(o: Option<u64>) -> String { o.map(val).unwrap_or("none".into()) }
pub fn res(r: Result<u64, StateError>) -> String {
    match r { Ok(v) => val(v), Err(e) => err_s(&e) }
}
pub fn or_panic(r: Option<String>) -> String { r.unwrap_or("panic".into()) }

/// The bindings of ONE registry's own map on the client types, sorted by key. `f`/`r`/`w` lock state is
/// appended when `locks` is set (probed through `try_borrow_mut` / `try_borrow`).
pub fn map_s(r: &Rg, locks: bool, wvals: &dyn Fn(u64) -> Option<u64>) -> Vec<String> {
    let mut out = vec![];
    for k in 0..NTYPES {
        with_key!(k, T => {
            if r.contains_at_top::<T>() {
                if !locks {
                    match r.try_get_value::<T>() { Ok(v) => out.push(format!("({k} {v})")), Err(_) => out.push(format!("({k} locked)")) }
                } else if r.try_borrow_mut::<T>().is_ok() {
                    out.push(format!("({k} {} f)", r.try_get_value::<T>().unwrap()));
                } else if let Ok(v) = r.try_get_value::<T>() {
                    out.push(format!("({k} {v} r)"));
                } else {
                    out.push(format!("({k} {} w)", wvals(k).map(|v| v.to_string()).unwrap_or("?".into())));
                }
            }
        });
    }
    out
}

pub fn chain(r: &Rg) -> Vec<&Rg> {
    let mut v = vec![r];
    let mut c = r;
    while let Some(p) = c.parent() { v.push(p); c = p; }
    v
}

pub fn dump_s(r: &Rg) -> String {
    tagged("dump", chain(r).into_iter().map(|s| list(map_s(s, false, &|_| None))))
}

fn depth_of(r: &Rg, target: *const Rg) -> String {
    match chain(r).iter().position(|s| std::ptr::eq(*s as *const Rg, target)) {
        Some(d) => format!("(d {d})"),
        None => "(d lost)".into(),
    }
}

// ---------------------------------------------------------------- multi-borrow
pub trait RefsApply { fn apply(self, d: u64) -> (Vec<u64>, Vec<usize>); }
macro_rules! impl_refs { ($(($($t:ident $i:tt),+))*) => {$(
    impl<'a, $($t: DerefMut<Target = u64>),+> RefsApply for ($(&'a mut $t),+) {
        fn apply(self, d: u64) -> (Vec<u64>, Vec<usize>) {
            let ptrs = vec![$(&**self.$i as *const u64 as usize),+];
            let vals = vec![$(**self.$i),+];
            $(**self.$i = (**self.$i).wrapping_add(d);)+
            (vals, ptrs)
        }
    }
)*}}
impl_refs! {
    (A 0, B 1) (A 0, B 1, C 2) (A 0, B 1, C 2, D 3) (A 0, B 1, C 2, D 3, E 4) (A 0, B 1, C 2, D 3, E 4, F 5)
    (A 0, B 1, C 2, D 3, E 4, F 5, G 6) (A 0, B 1, C 2, D 3, E 4, F 5, G 6, H 7)
}

/// Which PUBLIC entry point of the multi-borrow a request goes through.
#[derive(Clone, Copy, PartialEq, Debug)]
pub enum MVia {
    /// `StateRegistry::try_get_multiple_mut::<Tup>()` / (panicking) `StateRegistry::get_multiple_mut::<Tup>()`
    Reg,
    /// the public trait method `<Tup as MultiStateTuple>::try_get_mut(&mut registry)` called directly
    Tuple,
}

/// What to do with a tuple: the increment written through every reference, and which accessor to use.
#[derive(Clone, Copy)]
pub struct MArg { pub d: u64, pub panicking: bool, pub via: MVia }

/// What the request is issued on: a `&mut StateRegistry` (the current one or one reached by `parent_mut()`), or
/// the `&mut State` wrapper (method syntax / deref coercion on `State`, which is how components call it).
pub enum MTarget<'b> { Reg(&'b mut Rg), State(&'b mut St) }

fn refs_out<R: RefsApply>(refs: R, d: u64) -> String {
    let (vals, ptrs) = refs.apply(d);
    let mut p = ptrs.clone(); p.sort(); p.dedup();
    if p.len() != ptrs.len() { "alias".into() } else { tagged("vals", vals.iter().map(|v| v.to_string())) }
}

fn refs_res<R: RefsApply>(r: Result<R, StateError>, d: u64) -> String {
    match r { Ok(refs) => refs_out(refs, d), Err(e) => err_s(&e) }
}
fn refs_opt<R: RefsApply>(r: Option<R>, d: u64) -> String {
    match r { Some(refs) => refs_out(refs, d), None => "panic".into() }
}

/// One multi-borrow request for the tuple type `Tup` through the entry point `a.via` (`a.panicking`: the panicking
/// registry accessor), then `+= d` through every returned reference; `alias` if two of the returned references
/// point to the same object.
pub fn multi_finish<'b, Tup>(t: MTarget<'b>, a: MArg) -> String
where Tup: MultiStateTuple<'b, 'static>, Tup::References: RefsApply {
    match (t, a.via) {
        (MTarget::Reg(r), MVia::Reg) if a.panicking => refs_opt(catch(move || r.get_multiple_mut::<Tup>()), a.d),
        (MTarget::Reg(r), MVia::Reg) => refs_res(r.try_get_multiple_mut::<Tup>(), a.d),
        (MTarget::Reg(r), MVia::Tuple) => refs_res(<Tup as MultiStateTuple<'b, 'static>>::try_get_mut(r), a.d),
        // on `State`: method syntax (auto-deref) resp. deref coercion of the argument
        (MTarget::State(s), MVia::Reg) if a.panicking => refs_opt(catch(move || s.get_multiple_mut::<Tup>()), a.d),
        (MTarget::State(s), MVia::Reg) => refs_res(s.try_get_multiple_mut::<Tup>(), a.d),
        (MTarget::State(s), MVia::Tuple) => refs_res(<Tup as MultiStateTuple<'b, 'static>>::try_get_mut(s), a.d),
    }
}

/// Full tree over a universe of `U` types to depth `max`: every tuple of arity 2..max.
macro_rules! multi_tree {
    // no position left
    ($keys:ident, $r:ident, $d:ident, $i:expr, ($($u:ident $n:tt),*), [$($acc:ident),*], []) => {
        multi_tree!(@leaf $keys, $r, $d, $i, [$($acc),*])
    };
    ($keys:ident, $r:ident, $d:ident, $i:expr, ($($u:ident $n:tt),*), [$($acc:ident),*], [$h:tt $($rest:tt)*]) => {
        if $keys.len() == $i { multi_tree!(@leaf $keys, $r, $d, $i, [$($acc),*]) }
        else { multi_tree!(@branch $keys, $r, $d, $i, ($($u $n),*), ($($u $n),*), [$($acc),*], [$($rest)*]) }
    };
    (@branch $keys:ident, $r:ident, $d:ident, $i:expr, ($($u:ident $n:tt),*), $uni:tt, $acc:tt, $rest:tt) => {
        match $keys[$i] {
            $($n => multi_tree!(@push $keys, $r, $d, $i, $uni, $acc, $u, $rest),)*
            _ => None,
        }
    };
    (@push $keys:ident, $r:ident, $d:ident, $i:expr, $uni:tt, [$($acc:ident),*], $u:ident, $rest:tt) => {
        multi_tree!($keys, $r, $d, $i + 1, $uni, [$($acc,)* $u], $rest)
    };
    (@leaf $keys:ident, $r:ident, $d:ident, $i:expr, []) => { None };
    (@leaf $keys:ident, $r:ident, $d:ident, $i:expr, [$a:ident]) => { None };
    (@leaf $keys:ident, $r:ident, $d:ident, $i:expr, [$($acc:ident),+]) => {
        Some(multi_finish::<($($acc),+)>($r, $d))
    };
}

macro_rules! multi_fixed { ($keys:ident, $r:ident, $d:ident; $(($($t:ident $n:tt),+))*) => {
    $( if $keys == [$($n),+] { return Some(multi_finish::<($($t),+)>($r, $d)); } )*
}}

fn multi_u2<'b>(keys: &[u64], r: MTarget<'b>, d: MArg) -> Option<String> {
    multi_tree!(keys, r, d, 0, (K0 0, K1 1), [], [x x x x x x x x])
}
fn multi_u4<'b>(keys: &[u64], r: MTarget<'b>, d: MArg) -> Option<String> {
    multi_tree!(keys, r, d, 0, (K0 0, K1 1, K2 2, K3 3), [], [x x x x])
}
/// Tuples over all eight types (arity 5..8): a fixed set — all-distinct permutations and ones with a
/// repetition at different positions.
fn multi_u8<'b>(keys: &[u64], r: MTarget<'b>, d: MArg) -> Option<String> {
    multi_fixed!(keys, r, d;
        (K0 0, K1 1, K2 2, K3 3, K4 4) (K4 4, K3 3, K2 2, K1 1, K0 0) (K7 7, K2 2, K5 5, K0 0, K3 3)
        (K0 0, K1 1, K2 2, K3 3, K0 0) (K5 5, K5 5, K6 6, K7 7, K4 4) (K1 1, K6 6, K3 3, K6 6, K2 2)
        (K0 0, K1 1, K2 2, K3 3, K4 4, K5 5) (K5 5, K3 3, K1 1, K4 4, K2 2, K0 0) (K6 6, K7 7, K0 0, K1 1, K2 2, K3 3)
        (K0 0, K1 1, K2 2, K3 3, K4 4, K4 4) (K6 6, K1 1, K2 2, K6 6, K4 4, K5 5)
        (K0 0, K1 1, K2 2, K3 3, K4 4, K5 5, K6 6) (K6 6, K5 5, K4 4, K3 3, K2 2, K1 1, K0 0) (K7 7, K0 0, K6 6, K1 1, K5 5, K2 2, K4 4)
        (K0 0, K1 1, K2 2, K3 3, K4 4, K5 5, K0 0) (K1 1, K2 2, K3 3, K3 3, K4 4, K5 5, K6 6)
        (K0 0, K1 1, K2 2, K3 3, K4 4, K5 5, K6 6, K7 7) (K7 7, K6 6, K5 5, K4 4, K3 3, K2 2, K1 1, K0 0)
        (K3 3, K0 0, K7 7, K4 4, K1 1, K6 6, K5 5, K2 2) (K0 0, K1 1, K2 2, K3 3, K4 4, K5 5, K6 6, K0 0)
        (K7 7, K1 1, K2 2, K3 3, K4 4, K5 5, K6 6, K6 6) (K2 2, K2 2, K0 0, K1 1, K3 3, K4 4, K5 5, K6 6)
    );
    None
}
/// The tuples of `multi_u8`, for the generators.
pub const U8_TUPLES: &[&[u64]] = &[
    &[0, 1, 2, 3, 4], &[4, 3, 2, 1, 0], &[7, 2, 5, 0, 3], &[0, 1, 2, 3, 0], &[5, 5, 6, 7, 4], &[1, 6, 3, 6, 2],
    &[0, 1, 2, 3, 4, 5], &[5, 3, 1, 4, 2, 0], &[6, 7, 0, 1, 2, 3], &[0, 1, 2, 3, 4, 4], &[6, 1, 2, 6, 4, 5],
    &[0, 1, 2, 3, 4, 5, 6], &[6, 5, 4, 3, 2, 1, 0], &[7, 0, 6, 1, 5, 2, 4], &[0, 1, 2, 3, 4, 5, 0], &[1, 2, 3, 3, 4, 5, 6],
    &[0, 1, 2, 3, 4, 5, 6, 7], &[7, 6, 5, 4, 3, 2, 1, 0], &[3, 0, 7, 4, 1, 6, 5, 2], &[0, 1, 2, 3, 4, 5, 6, 0],
    &[7, 1, 2, 3, 4, 5, 6, 6], &[2, 2, 0, 1, 3, 4, 5, 6],
];

/// Is there an instantiation for this key tuple?
pub fn multi_supported(keys: &[u64]) -> bool {
    let n = keys.len();
    (2..=8).contains(&n) && (keys.iter().all(|&k| k < 2) || (n <= 4 && keys.iter().all(|&k| k < 4)) || U8_TUPLES.contains(&keys))
}

pub fn multi(keys: &[u64], r: &mut Rg, d: MArg) -> String { multi_on(keys, MTarget::Reg(r), d) }

/// The request `d` for the key tuple `keys`, issued on `r`.
pub fn multi_on<'b>(keys: &[u64], r: MTarget<'b>, d: MArg) -> String {
    let o = if keys.iter().all(|&k| k < 2) { multi_u2(keys, r, d) }
        else if keys.len() <= 4 && keys.iter().all(|&k| k < 4) { multi_u4(keys, r, d) }
        else { multi_u8(keys, r, d) };
    o.unwrap_or_else(|| panic!("no instantiation for tuple {keys:?}"))
}

/// `(multiv VIA DIST (K*) D)`: a multi-borrow through one of the public entry points — `reg` / `regp`
/// (`StateRegistry::try_get_multiple_mut` / `get_multiple_mut`), `tup` (`MultiStateTuple::try_get_mut`), and the same
/// three on the `State` wrapper (`st`, `stp`, `sttup`) — issued on the registry reached by `parent_mut()` applied
/// `DIST` times (`State` exists only for the current registry: the `st*` routes with `DIST > 0` use the registry).
pub fn multi_via(state: &mut St, a: &[Sx]) -> String {
    let (via, panicking, wrapped) = match a[0].atom().expect("via") {
        "reg" => (MVia::Reg, false, false), "regp" => (MVia::Reg, true, false), "tup" => (MVia::Tuple, false, false),
        "st" => (MVia::Reg, false, true), "stp" => (MVia::Reg, true, true), "sttup" => (MVia::Tuple, false, true),
        other => panic!("unknown entry point {other}"),
    };
    let dist = n(a, 1);
    let keys: Vec<u64> = a[2].items().unwrap().iter().map(|x| x.nat().unwrap()).collect();
    let arg = MArg { d: n(a, 3), panicking, via };
    if wrapped && dist == 0 { return multi_on(&keys, MTarget::State(state), arg); }
    let mut r: &mut Rg = &mut **state;
    for _ in 0..dist { match r.parent_mut() { Some(p) => r = p, None => return "noparent".into() } }
    multi_on(&keys, MTarget::Reg(r), arg)
}

// ---------------------------------------------------------------- one registry operation
pub fn push(state: &mut St) {
    let r: Rg = std::mem::take(&mut **state);
    **state = r.into_child();
}
pub fn pop(state: &mut St) -> String {
    let r: Rg = std::mem::take(&mut **state);
    let (parent, own) = r.into_parent();
    let maps = map_s(&own, false, &|_| None);
    match parent {
        Some(p) => { **state = p; tagged("popped", maps) }
        None => { **state = own; tagged("root", maps) }
    }
}

fn n(a: &[Sx], i: usize) -> u64 { a[i].nat().expect("nat argument") }

/// The `&self` methods: executable while guards are alive. `None` = not a `&self` operation.
pub fn exec_shared(state: &St, op: &Sx) -> Option<String> {
    let (name, a) = op.head().expect("op");
    match name {
        "dump" => return Some(dump_s(state)),
        "parget" => {
            let (d, k) = (n(a, 0), n(a, 1));
            let mut r: &Rg = &**state;
            for _ in 0..d { match r.parent() { Some(p) => r = p, None => return Some("noparent".into()) } }
            return Some(with_key!(k, T => res(r.try_get_value::<T>())));
        }
        "hastop" | "has" | "find" | "get" | "tryget" | "set" | "req" | "gset" | "gget" => {}
        _ => return None,
    }
    let k = n(a, 0);
    Some(with_key!(k, T => match name {
        "hastop" => b(state.contains_at_top::<T>()),
        "has" => b(state.contains::<T>()),
        "find" => match state.find::<T>() { Ok(r) => depth_of(state, r as *const Rg), Err(e) => err_s(&e) },
        "get" => or_panic(catch(|| val(state.get_value::<T>()))),
        "tryget" => res(state.try_get_value::<T>()),
        // fallible accessor: a panic is an outcome of its own (the property allows panics only from the panicking accessors)
        "set" => or_panic(catch(|| opt(state.set_value::<T>(n(a, 1))))),
        "req" => match state.requirements().require::<(), T>() { Ok(()) => "ok".into(), Err(e) => err_s(&e) },
        // value access while a guard on the same type is alive
        "gset" => match state.try_borrow::<T>() {
            Ok(g) => { let o = or_panic(catch(|| opt(state.set_value::<T>(n(a, 1))))); drop(g); o }
            Err(e) => err_s(&e),
        },
        "gget" => match state.try_borrow_mut::<T>() {
            Ok(g) => { let o = or_panic(catch(|| res(state.try_get_value::<T>()))); drop(g); o }
            Err(e) => err_s(&e),
        },
        _ => unreachable!(),
    }))
}

/// Executes one `ROp` on the real registry; the result is the canonical output string.
pub fn exec_rop(state: &mut St, op: &Sx) -> String {
    if let Some(s) = exec_shared(state, op) { return s; }
    let (name, a) = op.head().expect("op");
    match name {
        "push" => { push(state); return "ok".into(); }
        "pop" => return pop(state),
        "multi" | "multip" => {
            let keys: Vec<u64> = a[0].items().unwrap().iter().map(|x| x.nat().unwrap()).collect();
            let arg = MArg { d: n(a, 1), panicking: name == "multip", via: MVia::Reg };
            return multi(&keys, &mut **state, arg);
        }
        "multiv" => return multi_via(state, a),
        "parins" => {
            let (d, k, v) = (n(a, 0), n(a, 1), n(a, 2));
            let mut r: &mut Rg = &mut **state;
            for _ in 0..d { match r.parent_mut() { Some(p) => r = p, None => return "noparent".into() } }
            return with_key!(k, T => opt(r.insert(T::from(v)).map(|x| x.0)));
        }
        _ => {}
    }
    let k = n(a, 0);
    with_key!(k, T => match name {
        "ins" => opt(state.insert(T::from(n(a, 1))).map(|x| x.0)),
        "rem" => res(state.remove::<T>().map(|x| x.0)),
        "take" => or_panic(catch(|| val(state.take::<T>().0))),
        "findmut" => match state.find_mut::<T>().map(|r| r as *const Rg) { Ok(p) => depth_of(state, p), Err(e) => err_s(&e) },
        "getmut" => opt(state.get_mut::<T>().map(|x| std::mem::replace(&mut x.0, n(a, 1)))),
        "ent-orins" => or_panic(catch(|| val(state.entry::<T>().or_insert(T::from(n(a, 1))).0))),
        "ent-orwith" => or_panic(catch(|| val(state.entry::<T>().or_insert_with(|| T::from(n(a, 1))).0))),
        "ent-ordef" => or_panic(catch(|| val(state.entry::<T>().or_default().0))),
        "ent-mod" => or_panic(catch(|| {
            let d = n(a, 1);
            match state.entry::<T>().and_modify(|mut x| x.0 = x.0.wrapping_add(d)) { Entry::Occupied(_) => b(true), Entry::Vacant(_) => b(false) }
        })),
        "ent-modv" => or_panic(catch(|| {
            let d = n(a, 1);
            match state.entry::<T>().and_modify_value(|x| *x = x.wrapping_add(d)) { Entry::Occupied(_) => b(true), Entry::Vacant(_) => b(false) }
        })),
        "ent-mod-orins" => or_panic(catch(|| {
            let (d, v) = (n(a, 1), n(a, 2));
            val(state.entry::<T>().and_modify(|mut x| x.0 = x.0.wrapping_add(d)).or_insert(T::from(v)).0)
        })),
        "occ-get" => or_panic(catch(|| match state.entry::<T>() { Entry::Occupied(e) => val(e.get().0), Entry::Vacant(_) => "vacant".into() })),
        "occ-getmut" => or_panic(catch(|| match state.entry::<T>() {
            Entry::Occupied(mut e) => { let mut g = e.get_mut(); val(std::mem::replace(&mut g.0, n(a, 1))) }
            Entry::Vacant(_) => "vacant".into() })),
        "occ-intomut" => or_panic(catch(|| match state.entry::<T>() {
            Entry::Occupied(e) => { let mut g = e.into_mut(); val(std::mem::replace(&mut g.0, n(a, 1))) }
            Entry::Vacant(_) => "vacant".into() })),
        "occ-ins" => or_panic(catch(|| match state.entry::<T>() {
            Entry::Occupied(mut e) => val(e.insert(T::from(n(a, 1))).0), Entry::Vacant(_) => "vacant".into() })),
        "occ-rem" => or_panic(catch(|| match state.entry::<T>() {
            Entry::Occupied(e) => val(e.remove().0), Entry::Vacant(_) => "vacant".into() })),
        "vac-ins" => or_panic(catch(|| match state.entry::<T>() {
            Entry::Occupied(_) => "occupied".into(), Entry::Vacant(e) => val(e.insert(T::from(n(a, 1))).0) })),
        other => panic!("unknown op {other}"),
    })
}

// ---------------------------------------------------------------- statements (`holding`, `with_inner_state`)
fn exec_err(e: &mahf::component::ExecResult<()>) -> String {
    match e {
        Ok(()) => "ok".into(),
        Err(e) => match e.downcast_ref::<StateError>() { Some(se) => err_s(se), None => "(e exec)".into() },
    }
}

/// Executes a statement on `&mut State`; pushes its outcomes (body first, the helper's result last).
pub fn exec_stmt(state: &mut St, s: &Sx, outs: &mut Vec<String>) {
    let (name, a) = s.head().expect("stmt");
    match name {
        "hold" => {
            let (k, d, ok) = (n(a, 0), n(a, 1), a[2].atom() == Some("ok"));
            let body = &a[3..];
            let mut inner = vec![];
            let r = with_key!(k, T => catch(|| state.holding::<T>(|t, st| {
                t.0 = t.0.wrapping_add(d);
                for s in body { exec_stmt(st, s, &mut inner); }
                if ok { Ok(()) } else { Err(eyre::eyre!("body failed")) }
            })));
            outs.extend(inner);
            outs.push(match r { Some(r) => exec_err(&r), None => "panic".into() });
        }
        "inner" => {
            let ok = a[0].atom() == Some("ok");
            let body = &a[1..];
            let mut inner = vec![];
            let r = catch(|| state.with_inner_state(|st| {
                for s in body { exec_stmt(st, s, &mut inner); }
                if ok { Ok(()) } else { Err(eyre::eyre!("body failed")) }
            }));
            outs.extend(inner);
            outs.push(match r {
                Some(Ok(child)) => tagged("popped", map_s(&child, false, &|_| None)),
                Some(Err(e)) => exec_err(&Err(e)),
                None => "panic".into(),
            });
        }
        _ => outs.push(exec_rop(state, s)),
    }
}
