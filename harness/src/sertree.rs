//! A name-preserving serde serializer: turns any `Serialize` value (in particular a component
//! tree behind `Box<dyn Component<P>>`) into an S-expression that keeps struct / variant names,
//! field names and values. `(S Name (field value)…)` structs, `(N Name value)` newtype structs,
//! `(U Name)` unit structs, `(seq v…)`, `(map (k v)…)`, `(V Enum Variant …)`, `none`, atoms.
use serde::ser::{self, Serialize};

#[derive(Debug)]
pub struct Error(String);
impl std::fmt::Display for Error {
    fn fmt(&self, f: &mut std::fmt::Formatter<'_>) -> std::fmt::Result {
        write!(f, "{}", self.0)
    }
}
impl std::error::Error for Error {}
impl ser::Error for Error {
    fn custom<T: std::fmt::Display>(msg: T) -> Self {
        Error(msg.to_string())
    }
}

pub fn to_sexp<T: Serialize + ?Sized>(v: &T) -> Result<String, Error> {
    v.serialize(Ser)
}

fn atomise(s: &str) -> String {
    if s.is_empty() {
        return "\"\"".into();
    }
    s.chars()
        .map(|c| if c.is_whitespace() || c == '(' || c == ')' { '_' } else { c })
        .collect()
}

pub struct Ser;
pub struct Compound {
    head: String,
    items: Vec<String>,
    key: Option<String>,
}
impl Compound {
    fn finish(self) -> String {
        let mut s = String::from("(");
        s.push_str(&self.head);
        for i in self.items {
            s.push(' ');
            s.push_str(&i);
        }
        s.push(')');
        s
    }
}

impl ser::Serializer for Ser {
    type Ok = String;
    type Error = Error;
    type SerializeSeq = Compound;
    type SerializeTuple = Compound;
    type SerializeTupleStruct = Compound;
    type SerializeTupleVariant = Compound;
    type SerializeMap = Compound;
    type SerializeStruct = Compound;
    type SerializeStructVariant = Compound;

    fn serialize_bool(self, v: bool) -> Result<String, Error> { Ok(if v { "true".into() } else { "false".into() }) }
    fn serialize_i8(self, v: i8) -> Result<String, Error> { Ok(v.to_string()) }
    fn serialize_i16(self, v: i16) -> Result<String, Error> { Ok(v.to_string()) }
    fn serialize_i32(self, v: i32) -> Result<String, Error> { Ok(v.to_string()) }
    fn serialize_i64(self, v: i64) -> Result<String, Error> { Ok(v.to_string()) }
    fn serialize_u8(self, v: u8) -> Result<String, Error> { Ok(v.to_string()) }
    fn serialize_u16(self, v: u16) -> Result<String, Error> { Ok(v.to_string()) }
    fn serialize_u32(self, v: u32) -> Result<String, Error> { Ok(v.to_string()) }
    fn serialize_u64(self, v: u64) -> Result<String, Error> { Ok(v.to_string()) }
    fn serialize_f32(self, v: f32) -> Result<String, Error> { Ok(crate::fx(v as f64)) }
    fn serialize_f64(self, v: f64) -> Result<String, Error> { Ok(crate::fx(v)) }
    fn serialize_char(self, v: char) -> Result<String, Error> { Ok(atomise(&v.to_string())) }
    fn serialize_str(self, v: &str) -> Result<String, Error> { Ok(format!("(str {})", atomise(v))) }
    fn serialize_bytes(self, v: &[u8]) -> Result<String, Error> { Ok(crate::nats(v.iter().map(|b| *b as u64))) }
    fn serialize_none(self) -> Result<String, Error> { Ok("none".into()) }
    fn serialize_some<T: ?Sized + Serialize>(self, value: &T) -> Result<String, Error> {
        Ok(format!("(some {})", value.serialize(Ser)?))
    }
    fn serialize_unit(self) -> Result<String, Error> { Ok("unit".into()) }
    fn serialize_unit_struct(self, name: &'static str) -> Result<String, Error> { Ok(format!("(U {})", atomise(name))) }
    fn serialize_unit_variant(self, name: &'static str, _i: u32, variant: &'static str) -> Result<String, Error> {
        Ok(format!("(V {} {})", atomise(name), atomise(variant)))
    }
    fn serialize_newtype_struct<T: ?Sized + Serialize>(self, name: &'static str, value: &T) -> Result<String, Error> {
        Ok(format!("(N {} {})", atomise(name), value.serialize(Ser)?))
    }
    fn serialize_newtype_variant<T: ?Sized + Serialize>(self, name: &'static str, _i: u32, variant: &'static str, value: &T) -> Result<String, Error> {
        Ok(format!("(V {} {} {})", atomise(name), atomise(variant), value.serialize(Ser)?))
    }
    fn serialize_seq(self, _len: Option<usize>) -> Result<Compound, Error> {
        Ok(Compound { head: "seq".into(), items: vec![], key: None })
    }
    fn serialize_tuple(self, _len: usize) -> Result<Compound, Error> {
        Ok(Compound { head: "tuple".into(), items: vec![], key: None })
    }
    fn serialize_tuple_struct(self, name: &'static str, _len: usize) -> Result<Compound, Error> {
        Ok(Compound { head: format!("T {}", atomise(name)), items: vec![], key: None })
    }
    fn serialize_tuple_variant(self, name: &'static str, _i: u32, variant: &'static str, _len: usize) -> Result<Compound, Error> {
        Ok(Compound { head: format!("V {} {}", atomise(name), atomise(variant)), items: vec![], key: None })
    }
    fn serialize_map(self, _len: Option<usize>) -> Result<Compound, Error> {
        Ok(Compound { head: "map".into(), items: vec![], key: None })
    }
    fn serialize_struct(self, name: &'static str, _len: usize) -> Result<Compound, Error> {
        Ok(Compound { head: format!("S {}", atomise(name)), items: vec![], key: None })
    }
    fn serialize_struct_variant(self, name: &'static str, _i: u32, variant: &'static str, _len: usize) -> Result<Compound, Error> {
        Ok(Compound { head: format!("V {} {}", atomise(name), atomise(variant)), items: vec![], key: None })
    }
}

impl ser::SerializeSeq for Compound {
    type Ok = String;
    type Error = Error;
    fn serialize_element<T: ?Sized + Serialize>(&mut self, value: &T) -> Result<(), Error> {
        self.items.push(value.serialize(Ser)?);
        Ok(())
    }
    fn end(self) -> Result<String, Error> { Ok(self.finish()) }
}
impl ser::SerializeTuple for Compound {
    type Ok = String;
    type Error = Error;
    fn serialize_element<T: ?Sized + Serialize>(&mut self, value: &T) -> Result<(), Error> {
        self.items.push(value.serialize(Ser)?);
        Ok(())
    }
    fn end(self) -> Result<String, Error> { Ok(self.finish()) }
}
impl ser::SerializeTupleStruct for Compound {
    type Ok = String;
    type Error = Error;
    fn serialize_field<T: ?Sized + Serialize>(&mut self, value: &T) -> Result<(), Error> {
        self.items.push(value.serialize(Ser)?);
        Ok(())
    }
    fn end(self) -> Result<String, Error> { Ok(self.finish()) }
}
impl ser::SerializeTupleVariant for Compound {
    type Ok = String;
    type Error = Error;
    fn serialize_field<T: ?Sized + Serialize>(&mut self, value: &T) -> Result<(), Error> {
        self.items.push(value.serialize(Ser)?);
        Ok(())
    }
    fn end(self) -> Result<String, Error> { Ok(self.finish()) }
}
impl ser::SerializeMap for Compound {
    type Ok = String;
    type Error = Error;
    fn serialize_key<T: ?Sized + Serialize>(&mut self, key: &T) -> Result<(), Error> {
        self.key = Some(key.serialize(Ser)?);
        Ok(())
    }
    fn serialize_value<T: ?Sized + Serialize>(&mut self, value: &T) -> Result<(), Error> {
        let k = self.key.take().unwrap_or_default();
        self.items.push(format!("({} {})", k, value.serialize(Ser)?));
        Ok(())
    }
    fn end(mut self) -> Result<String, Error> {
        self.items.sort();
        Ok(self.finish())
    }
}
impl ser::SerializeStruct for Compound {
    type Ok = String;
    type Error = Error;
    fn serialize_field<T: ?Sized + Serialize>(&mut self, key: &'static str, value: &T) -> Result<(), Error> {
        self.items.push(format!("({} {})", atomise(key), value.serialize(Ser)?));
        Ok(())
    }
    fn end(self) -> Result<String, Error> { Ok(self.finish()) }
}
impl ser::SerializeStructVariant for Compound {
    type Ok = String;
    type Error = Error;
    fn serialize_field<T: ?Sized + Serialize>(&mut self, key: &'static str, value: &T) -> Result<(), Error> {
        self.items.push(format!("({} {})", atomise(key), value.serialize(Ser)?));
        Ok(())
    }
    fn end(self) -> Result<String, Error> { Ok(self.finish()) }
}
