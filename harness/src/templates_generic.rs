//! C06 — the *generic* loop functions of `mahf::heuristics` (`ga::ga::<P, I>`, `es::es`, …: every
//! `pub fn xx<P, I>(params: Parameters<P>, condition) -> Box<dyn Component<P>>`), instantiated with a
//! NON-`Global` evaluator identifier `I = mahf::identifier::A`.
//!
//! The shipped constructors (`real_ga`, …) all instantiate `I = Global`, so nothing built from them can
//! show whether a generic loop really applies the *requested* evaluator in every evaluation step. Here the
//! complete configuration of the corresponding `real_*` constructor is rebuilt by hand from the same
//! components and the same parameter points as `templates.rs` (initialisation prefix with
//! `.evaluate_with::<A>()`, then the generic loop `xx::<P, A>(Parameters { … }, condition)`).
//!
//! Not constructible from outside the crate: `aco::aco::<P, I>` — both fields of `aco::Parameters<P>` are
//! private and there is no constructor (the `verif_new` hooks exist for `ASParameters`/`MMASParameters`
//! only, whose public entry points fix `I = Global`). It is skipped (`SKIPPED`).
use std::sync::{Arc, Mutex};

use mahf::components::{
    boundary, evaluation, initialization, mapping, mutation, recombination, replacement, selection, swarm, utils, Block,
};
use mahf::conditions::{self, LessThanN};
use mahf::heuristics::*;
use mahf::identifier::A;
use mahf::lens::ValueOf;
use mahf::problems::{Parallel, Sequential};
use mahf::state::common;
use mahf::verif::StepObserver;
use mahf::{Configuration, ExecResult, Random, State};

use crate::problems::Sphere;
use crate::templates::{sphere_instance, ConfigUser, EvalKind, HProblem, Outcome, Visitor, N_VARIANTS};

/// The generic loop functions that can be instantiated from outside the crate (all on `Sphere`).
pub const GENERIC_TEMPLATES: [&str; 13] = ["ga", "es", "de", "pso", "sa", "ls", "ils", "rs", "rw", "iwo", "fa", "bh", "cro"];
/// Generic loop functions that cannot be instantiated from outside the crate, with the reason.
pub const SKIPPED: [(&str, &str); 1] = [("aco", "aco::Parameters<P> has only private fields and no constructor")];

/// Which evaluators the run's initial state holds.
#[derive(Clone, Copy, PartialEq, Debug)]
pub enum Registered {
    /// only `Evaluator<P, A>` — the identifier every generic-A configuration requests
    OnlyA,
    /// only `Evaluator<P, Global>` — the requested identifier `A` is missing
    OnlyGlobal,
}

fn build(name: &str, variant: u32, iters: u32) -> ExecResult<Configuration<Sphere>> {
    type P = Sphere;
    let v = (variant % N_VARIANTS) as usize;
    let cond = || LessThanN::iterations(iters);
    // `real_ls`, with `A`: shared by "ls" and (as the scoped local search) "ils"
    let ls_config = |n_neighbors: u32, deviation: f64, condition: Box<dyn mahf::Condition<P>>| -> Configuration<P> {
        Configuration::builder()
            .do_(initialization::RandomSpread::new(1))
            .evaluate_with::<A>()
            .update_best_individual()
            .do_(evaluation::BestIndividualUpdate::new())
            .do_(ls::ls::<P, A>(
                ls::Parameters {
                    num_neighbors: n_neighbors,
                    neighbors: mutation::NormalMutation::new_dev(deviation),
                    constraints: boundary::Saturation::new(),
                },
                condition,
            ))
            .build()
    };
    Ok(match name {
        "ga" => {
            let (population_size, tournament_size, pm, deviation, pc) =
                ([6, 9, 5, 2][v], [2, 3, 4, 2][v], [1.0, 0.5, 0.1, 0.0][v], [0.1, 1.0, 0.01, 0.5][v], [0.8, 1.0, 0.0, 0.5][v]);
            Configuration::builder()
                .do_(initialization::RandomSpread::new(population_size))
                .evaluate_with::<A>()
                .update_best_individual()
                .do_(ga::ga::<P, A>(
                    ga::Parameters {
                        selection: selection::Tournament::new(population_size, tournament_size),
                        crossover: recombination::UniformCrossover::new_insert_both(pc),
                        pm,
                        mutation: mutation::NormalMutation::new_dev(deviation),
                        constraints: boundary::Saturation::new(),
                        archive: None,
                        replacement: replacement::Generational::new(population_size),
                    },
                    cond(),
                ))
                .build()
        }
        "es" => {
            let (population_size, lambda, deviation) = ([3, 5, 1, 2][v], [6, 5, 1, 0][v], [0.1, 1.0, 0.01, 0.1][v]);
            Configuration::builder()
                .do_(initialization::RandomSpread::new(population_size))
                .evaluate_with::<A>()
                .update_best_individual()
                .do_(es::es::<P, A>(
                    es::Parameters {
                        selection: selection::FullyRandom::new(lambda),
                        mutation: mutation::NormalMutation::new_dev(deviation),
                        constraints: boundary::Saturation::new(),
                        archive: None,
                        replacement: replacement::MuPlusLambda::new(population_size),
                    },
                    cond(),
                ))
                .build()
        }
        "de" => {
            let (population_size, y, f, pc) = ([6, 8, 10, 4][v], [1, 1, 2, 1][v], [0.5, 1.0, 0.2, 0.0][v], [0.9, 0.5, 0.1, 1.0][v]);
            Configuration::builder()
                .do_(initialization::RandomSpread::new(population_size))
                .evaluate_with::<A>()
                .update_best_individual()
                .do_(de::de::<P, A>(
                    de::Parameters {
                        selection: selection::de::DEBest::new(y)?,
                        mutation: mutation::de::DEMutation::new(y, f)?,
                        crossover: recombination::de::DEBinomialCrossover::new(pc),
                        constraints: boundary::Saturation::new(),
                        replacement: replacement::KeepBetterAtIndex::new(),
                    },
                    cond(),
                ))
                .build()
        }
        "pso" => {
            let (num_particles, start_weight, end_weight, c_one, c_two, v_max) = (
                [4, 1, 7, 2][v], [0.9, 0.5, 0.0, 1.0][v], [0.4, 0.5, 1.0, 1.0][v], [1.7, 0.0, 2.0, 0.0][v], [1.7, 2.0, 0.0, 0.0][v], [1.0, 0.001, 10.0, 0.5][v],
            );
            Configuration::builder()
                .do_(initialization::RandomSpread::new(num_particles))
                .evaluate_with::<A>()
                .update_best_individual()
                .do_(pso::pso::<P, A>(
                    pso::Parameters {
                        particle_init: swarm::pso::ParticleSwarmInit::new(v_max)?,
                        particle_update: swarm::pso::ParticleVelocitiesUpdate::new(start_weight, c_one, c_two, v_max)?,
                        constraints: boundary::Saturation::new(),
                        inertia_weight_update: Some(mapping::Linear::new(
                            start_weight,
                            end_weight,
                            ValueOf::<common::Progress<ValueOf<common::Iterations>>>::new(),
                            ValueOf::<swarm::pso::InertiaWeight<swarm::pso::ParticleVelocitiesUpdate>>::new(),
                        )),
                        state_update: swarm::pso::ParticleSwarmUpdate::new(),
                    },
                    cond(),
                ))
                .build()
        }
        "sa" => {
            let (t_0, alpha, deviation) = ([1.0, 100.0, 1e-3, 1e6][v], [0.9, 0.99, 0.5, 0.0][v], [0.1, 1.0, 0.01, 1e-6][v]);
            Configuration::builder()
                .do_(initialization::RandomSpread::new(1))
                .evaluate_with::<A>()
                .update_best_individual()
                .do_(sa::sa::<P, A>(
                    sa::Parameters {
                        t_0,
                        generation: mutation::NormalMutation::new_dev(deviation),
                        cooling_schedule: mapping::sa::GeometricCooling::new(alpha, ValueOf::<replacement::sa::Temperature>::new())?,
                        constraints: boundary::Saturation::new(),
                    },
                    cond(),
                ))
                .build()
        }
        "ls" => ls_config([3, 1, 6, 0][v], [0.1, 1.0, 0.01, 0.1][v], cond()),
        "ils" => {
            // as `real_ils` since 364645e: the scoped local search is the `ls` loop only
            let inner: Box<dyn mahf::Component<P>> = ls::ls::<P, A>(
                ls::Parameters {
                    num_neighbors: [3, 1, 6, 0][v],
                    neighbors: mutation::NormalMutation::new_dev([0.1, 1.0, 0.01, 0.1][v]),
                    constraints: boundary::Saturation::new(),
                },
                LessThanN::iterations([2, 3, 1, 0][v]),
            );
            Configuration::builder()
                .do_(initialization::RandomSpread::new(1))
                .evaluate_with::<A>()
                .update_best_individual()
                .do_(ils::ils::<P, A>(
                    ils::Parameters { perturbation: mutation::PartialRandomSpread::new_full(), ls: inner },
                    cond(),
                ))
                .build()
        }
        "rs" => Configuration::builder()
            .do_(initialization::RandomSpread::new(1))
            .evaluate_with::<A>()
            .update_best_individual()
            .do_(rs::rs::<P, A>(rs::Parameters { randomizer: mutation::PartialRandomSpread::new_full() }, cond()))
            .build(),
        "rw" => {
            // like `real_rw`: no evaluation in the prefix
            let deviation = [0.1, 1.0, 0.01, 1e-9][v];
            Configuration::builder()
                .do_(initialization::RandomSpread::new(1))
                .do_(rw::rw::<P, A>(
                    rw::Parameters { neighbor: mutation::NormalMutation::new_dev(deviation), constraints: boundary::Saturation::new() },
                    cond(),
                ))
                .build()
        }
        "iwo" => {
            let (initial_population_size, max_population_size, min_number_of_seeds, max_number_of_seeds, initial_deviation, final_deviation, modulation_index): (u32, u32, u32, u32, f64, f64, u32) = (
                [3, 2, 4, 1][v], [6, 5, 4, 1][v], [0, 1, 2, 0][v], [3, 1, 5, 1][v], [0.5, 1.0, 0.6, 0.2][v], [0.01, 0.1, 0.6, 0.0][v], [3, 1, 2, 1][v],
            );
            Configuration::builder()
                .do_(initialization::RandomSpread::new(initial_population_size))
                .evaluate_with::<A>()
                .update_best_individual()
                .do_(iwo::iwo::<P, A>(
                    iwo::Parameters {
                        max_population_size,
                        min_number_of_seeds,
                        max_number_of_seeds,
                        mutation: Block::new([
                            mutation::NormalMutation::new(initial_deviation, 1.),
                            mapping::Polynomial::new(
                                initial_deviation,
                                final_deviation,
                                modulation_index as f64,
                                ValueOf::<common::Progress<ValueOf<common::Iterations>>>::new(),
                                ValueOf::<mutation::MutationStrength<mutation::NormalMutation>>::new(),
                            ),
                        ]),
                        constraints: boundary::Saturation::new(),
                    },
                    cond(),
                ))
                .build()
        }
        "fa" => {
            let (pop_size, alpha, beta, gamma, delta) =
                ([4, 6, 3, 1][v], [0.25, 0.5, 0.0, 0.0][v], [1.0, 0.5, 0.2, 0.0][v], [0.01, 1.0, 0.1, 0.0][v], [0.97, 0.9, 1.0, 0.5][v]);
            Configuration::builder()
                .do_(initialization::RandomSpread::new(pop_size))
                .evaluate_with::<A>()
                .update_best_individual()
                .do_(fa::fa::<P, A>(
                    fa::Parameters {
                        // the position update evaluates moved fireflies itself: it takes the evaluator identifier, too
                        firefly_update: swarm::fa::FireflyPositionsUpdate::<A>::new_with_id(alpha, beta, gamma),
                        constraints: boundary::Saturation::new(),
                        alpha_update: Box::from(mapping::sa::GeometricCooling::new(delta, ValueOf::<swarm::fa::RandomizationParameter>::new())),
                    },
                    cond(),
                ))
                .build()
        }
        "bh" => {
            let num_particles = [4, 6, 2, 1][v];
            Configuration::builder()
                .do_(initialization::RandomSpread::new(num_particles))
                .evaluate_with::<A>()
                .update_best_individual()
                .do_(bh::bh::<P, A>(
                    bh::Parameters {
                        particle_update: swarm::bh::BlackHoleParticlesUpdate::new(),
                        constraints: boundary::Saturation::new(),
                        replacement: replacement::bh::EventHorizon::new(),
                    },
                    cond(),
                ))
                .build()
        }
        "cro" => {
            let (initial_population_size, mole_coll, kinetic_energy_lr, alpha, beta, initial_kinetic_energy, buffer, on_wall_deviation, decomposition_deviation) = (
                [4, 6, 3, 2][v], [0.2, 0.5, 0.8, 0.0][v], [0.2, 0.5, 0.9, 0.0][v], [5, 2, 50, 0][v], [0.1, 10.0, 1.0, 0.0][v],
                [10.0, 100.0, 1.0, 0.0][v], [0.0, 10.0, 1.0, 0.0][v], [0.1, 0.5, 0.01, 0.1][v], [0.1, 0.5, 1.0, 0.1][v],
            );
            Configuration::builder()
                .do_(initialization::RandomSpread::new(initial_population_size))
                .evaluate_with::<A>()
                .update_best_individual()
                .do_(cro::cro::<P, A>(
                    cro::Parameters {
                        mole_coll,
                        kinetic_energy_lr,
                        initial_kinetic_energy,
                        buffer,
                        single_mole_selection: selection::RandomWithoutRepetition::new(1),
                        decomposition_criterion: conditions::cro::DecompositionCriterion::new(alpha),
                        decomposition: Block::new([
                            utils::populations::DuplicatePopulation::new(),
                            mutation::NormalMutation::<A>::new_with_id(decomposition_deviation, 0.5),
                        ]),
                        on_wall_ineffective_collision: mutation::NormalMutation::<mahf::identifier::B>::new_with_id(on_wall_deviation, 1.0),
                        double_mole_selection: selection::RandomWithoutRepetition::new(2),
                        synthesis_criterion: conditions::cro::SynthesisCriterion::new(beta),
                        synthesis: recombination::UniformCrossover::new_insert_single(1.),
                        intermolecular_ineffective_collision: mutation::UniformMutation::new_bound(1.),
                        constraints: boundary::Saturation::new(),
                    },
                    cond(),
                ))
                .build()
        }
        other => return Err(eyre::eyre!("unknown generic template {other}")),
    })
}

/// Builds the generic-A configuration `name` at parameter point `variant` for Sphere instance `instance`,
/// bounded by `iters` loop iterations, and hands it to `user`. `Err` = a component constructor refused.
pub fn with_generic<U: ConfigUser>(name: &str, variant: u32, instance: u32, iters: u32, user: U) -> Result<U::Out, String> {
    let problem = sphere_instance(instance);
    let cfg = build(name, variant, iters).map_err(|e| format!("{e}"))?;
    Ok(user.use_config(&cfg, &problem))
}

struct Tree;
impl ConfigUser for Tree {
    type Out = String;
    fn use_config<P: HProblem>(self, config: &Configuration<P>, _p: &P) -> String {
        crate::sertree::to_sexp(config.heuristic()).unwrap_or_else(|e| format!("(ser-error {})", e.to_string().replace(' ', "_")))
    }
}

/// The serialised component tree of the generic-A configuration (the code's own `Serialize`, through the
/// name-preserving serializer), or `(ctor-err …)`.
pub fn generic_tree(name: &str, variant: u32, iters: u32) -> String {
    match with_generic(name, variant, 0, iters, Tree) {
        Ok(t) => t,
        Err(e) => format!("(ctor-err {})", e.replace(|c: char| c.is_whitespace() || c == '(' || c == ')', "_")),
    }
}

struct Runner<V: Visitor> {
    seed: u64,
    eval: EvalKind,
    reg: Registered,
    visitor: V,
}
impl<V: Visitor> ConfigUser for Runner<V> {
    type Out = (V, Outcome);
    fn use_config<P: HProblem>(self, config: &Configuration<P>, problem: &P) -> (V, Outcome) {
        let shared = Arc::new(Mutex::new(self.visitor));
        let (seed, eval, reg) = (self.seed, self.eval, self.reg);
        let outcome;
        {
            let obs_v = shared.clone();
            let obs_p = problem.clone();
            let r = crate::catch(|| {
                config.optimize_with(problem, |state: &mut State<P>| {
                    state.insert(Random::new(seed));
                    match (reg, eval) {
                        (Registered::OnlyA, EvalKind::Sequential) => state.insert_evaluator_as::<A>(Sequential::<P>::new()),
                        (Registered::OnlyA, EvalKind::Parallel) => state.insert_evaluator_as::<A>(Parallel::<P>::new()),
                        (Registered::OnlyGlobal, EvalKind::Sequential) => state.insert_evaluator(Sequential::<P>::new()),
                        (Registered::OnlyGlobal, EvalKind::Parallel) => state.insert_evaluator(Parallel::<P>::new()),
                    }
                    state.insert(StepObserver::<P>(Box::new(move |ph, name, idx, st| {
                        obs_v.lock().unwrap().step(ph, name, idx, st, &obs_p);
                    })));
                    Ok(())
                })
            });
            match r {
                None => {
                    outcome = Outcome::Panic;
                    shared.lock().unwrap_or_else(|e| e.into_inner()).done::<P>(&outcome, None, problem);
                }
                Some(Err(e)) => {
                    // keep the whole chain: the harness classifies "a requirement is missing" from it
                    outcome = Outcome::Err(format!("{e:?}"));
                    shared.lock().unwrap_or_else(|e| e.into_inner()).done::<P>(&outcome, None, problem);
                }
                Some(Ok(state)) => {
                    outcome = Outcome::Ok;
                    shared.lock().unwrap_or_else(|e| e.into_inner()).done(&outcome, Some(&state), problem);
                    drop(state);
                }
            }
        }
        let v = match Arc::try_unwrap(shared) {
            Ok(m) => m.into_inner().unwrap_or_else(|e| e.into_inner()),
            Err(_) => panic!("visitor still shared after the run"),
        };
        (v, outcome)
    }
}

/// Runs a generic-A configuration on a state holding only the evaluator(s) `reg` names, under `visitor`.
#[allow(clippy::too_many_arguments)]
pub fn run_generic<V: Visitor>(name: &str, variant: u32, instance: u32, iters: u32, seed: u64, eval: EvalKind, reg: Registered, visitor: V) -> Result<(V, Outcome), String> {
    with_generic(name, variant, instance, iters, Runner { seed, eval, reg, visitor })
}
