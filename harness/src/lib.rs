//! Shared pieces of the correspondence harness: deterministic PRNG, S-expression printing,
//! panic capture, argument handling. One binary per property lives in `src/bin/`.
use std::fmt::Write as _;
use std::io::Write as _;
use std::panic::{catch_unwind, AssertUnwindSafe};

pub mod problems;
pub mod templates;
pub mod sertree;
pub mod templates_generic;

/// SplitMix64 — the only source of generator decisions (independent of the `rand` crate).
#[derive(Clone)]
pub struct Sm(pub u64);
impl Sm {
    pub fn new(seed: u64) -> Self {
        Sm(seed.wrapping_mul(0x9E3779B97F4A7C15) ^ 0xD1B54A32D192ED03)
    }
    pub fn next(&mut self) -> u64 {
        self.0 = self.0.wrapping_add(0x9E3779B97F4A7C15);
        let mut z = self.0;
        z = (z ^ (z >> 30)).wrapping_mul(0xBF58476D1CE4E5B9);
        z = (z ^ (z >> 27)).wrapping_mul(0x94D049BB133111EB);
        z ^ (z >> 31)
    }
    /// Uniform in `0..n` (n > 0).
    pub fn below(&mut self, n: u64) -> u64 {
        self.next() % n
    }
    pub fn range(&mut self, lo: u64, hi_incl: u64) -> u64 {
        lo + self.below(hi_incl - lo + 1)
    }
    pub fn chance(&mut self, num: u64, den: u64) -> bool {
        self.below(den) < num
    }
    pub fn unit(&mut self) -> f64 {
        (self.next() >> 11) as f64 / (1u64 << 53) as f64
    }
    pub fn pick<'a, T>(&mut self, xs: &'a [T]) -> &'a T {
        &xs[self.below(xs.len() as u64) as usize]
    }
}

/// Float on the wire: `x` + 16 hex digits of the IEEE bit pattern.
pub fn fx(v: f64) -> String {
    format!("x{:016x}", v.to_bits())
}

pub fn list<I: IntoIterator<Item = String>>(items: I) -> String {
    let mut s = String::from("(");
    let mut first = true;
    for it in items {
        if !first {
            s.push(' ');
        }
        first = false;
        s.push_str(&it);
    }
    s.push(')');
    s
}

pub fn tagged<I: IntoIterator<Item = String>>(tag: &str, items: I) -> String {
    list(std::iter::once(tag.to_string()).chain(items))
}

pub fn nats<I: IntoIterator<Item = u64>>(items: I) -> String {
    list(items.into_iter().map(|n| n.to_string()))
}

pub fn b(v: bool) -> String {
    if v { "t".into() } else { "f".into() }
}

/// Silence the default panic message; panics are an *outcome* here.
pub fn quiet_panics() {
    std::panic::set_hook(Box::new(|_| {}));
}

/// Runs `f`, mapping a panic to `None`.
pub fn catch<T>(f: impl FnOnce() -> T) -> Option<T> {
    catch_unwind(AssertUnwindSafe(f)).ok()
}

pub struct Args {
    pub seed: u64,
    pub thorough: bool,
    pub replay: Option<String>,
}

/// `bin [--seed N] [--tier quick|thorough] [--replay '<case line>']`
pub fn args() -> Args {
    let mut a = Args { seed: 0, thorough: false, replay: None };
    let v: Vec<String> = std::env::args().collect();
    let mut i = 1;
    while i < v.len() {
        match v[i].as_str() {
            "--seed" => { a.seed = v[i + 1].parse().unwrap_or(0); i += 1; }
            "--tier" => { a.thorough = v[i + 1] == "thorough"; i += 1; }
            "--replay" => { a.replay = Some(v[i + 1].clone()); i += 1; }
            _ => {}
        }
        i += 1;
    }
    a
}

/// Case writer: one line `(id site input impl-output)` on stdout.
pub struct Out {
    w: std::io::BufWriter<std::io::Stdout>,
    pub n: u64,
}
impl Out {
    pub fn new() -> Self {
        Out { w: std::io::BufWriter::with_capacity(1 << 20, std::io::stdout()), n: 0 }
    }
    pub fn case(&mut self, site: &str, input: &str, output: &str) {
        let mut line = String::with_capacity(input.len() + output.len() + 32);
        let _ = write!(line, "({} {} {} {})", self.n, site, input, output);
        let _ = writeln!(self.w, "{}", line);
        self.n += 1;
    }
    pub fn finish(mut self) {
        let _ = self.w.flush();
    }
}

/// Minimal S-expression reader (for `--replay` and for scripted inputs).
#[derive(Clone, Debug, PartialEq)]
pub enum Sx {
    A(String),
    L(Vec<Sx>),
}
impl Sx {
    pub fn parse(s: &str) -> Option<Sx> {
        let mut stack: Vec<Vec<Sx>> = vec![vec![]];
        let mut cur = String::new();
        let flush = |cur: &mut String, stack: &mut Vec<Vec<Sx>>| {
            if !cur.is_empty() {
                stack.last_mut().unwrap().push(Sx::A(std::mem::take(cur)));
            }
        };
        for c in s.chars() {
            match c {
                '(' => { flush(&mut cur, &mut stack); stack.push(vec![]); }
                ')' => {
                    flush(&mut cur, &mut stack);
                    let top = stack.pop()?;
                    stack.last_mut()?.push(Sx::L(top));
                }
                ' ' | '\n' | '\t' | '\r' => flush(&mut cur, &mut stack),
                c => cur.push(c),
            }
        }
        flush(&mut cur, &mut stack);
        if stack.len() != 1 || stack[0].len() != 1 { return None; }
        stack.pop()?.pop()
    }
    pub fn atom(&self) -> Option<&str> {
        if let Sx::A(s) = self { Some(s) } else { None }
    }
    pub fn items(&self) -> Option<&[Sx]> {
        if let Sx::L(v) = self { Some(v) } else { None }
    }
    pub fn nat(&self) -> Option<u64> {
        self.atom()?.parse().ok()
    }
    pub fn float(&self) -> Option<f64> {
        let s = self.atom()?;
        let h = s.strip_prefix('x')?;
        u64::from_str_radix(h, 16).ok().map(f64::from_bits)
    }
    /// `(tag a b c)` → `("tag", [a, b, c])`
    pub fn head(&self) -> Option<(&str, &[Sx])> {
        let v = self.items()?;
        Some((v.first()?.atom()?, &v[1..]))
    }
    pub fn render(&self) -> String {
        match self {
            Sx::A(s) => s.clone(),
            Sx::L(v) => list(v.iter().map(|x| x.render())),
        }
    }
}
