#!/usr/bin/env python3
"""Runs the registered checks against every seeded change under seeded/<id>/ (patch.diff + meta.json).

For each one: scratch worktree of /repo under /var/tmp, apply the patch, `VERIF_REPO=<scratch> ./check <property>`
(quick tier, then thorough if quick misses it), remove the worktree again. Writes seeded/RESULTS.md.
Development tool: not part of the registered commands."""
import json, os, subprocess, sys, time
ROOT = os.path.dirname(os.path.abspath(__file__))
SEEDED = os.path.join(ROOT, "seeded")
import concurrent.futures
args = sys.argv[1:]
jobs = 1
if "-j" in args:
    i = args.index("-j")
    jobs = int(args[i + 1])
    del args[i:i + 2]
only = args
rows = []
todo = []
for d in sorted(os.listdir(SEEDED)):
    p = os.path.join(SEEDED, d)
    if not os.path.isfile(os.path.join(p, "patch.diff")):
        continue
    if only and not any(d.startswith(o) or o in d for o in only):
        continue
    todo.append(d)


def one(d):
    p = os.path.join(SEEDED, d)
    meta = json.load(open(os.path.join(p, "meta.json")))
    prop = meta["property"]
    scratch = f"/var/tmp/seedtest/{d}"
    subprocess.run(["git", "-C", "/repo", "worktree", "remove", "--force", scratch], capture_output=True)
    subprocess.run(["rm", "-rf", scratch, scratch + "-verif-target"])
    os.makedirs("/var/tmp/seedtest", exist_ok=True)
    subprocess.run(["git", "-C", "/repo", "worktree", "add", "-q", scratch, "HEAD"], check=True)
    ap = subprocess.run(["git", "-C", scratch, "apply", os.path.join(p, "patch.diff")], capture_output=True, text=True)
    result, tier_hit, detail = "patch-does-not-apply", "-", ap.stderr.strip()[:100]
    if ap.returncode == 0:
        result = "MISSED"
        # "quick" = the quick generator alone; "quick+esc" = the quick command as registered (the changed anchor makes it
        # spend the escalated budget); "thorough" = the thorough command
        for tier in ("quick", "quick+esc", "thorough"):
            t0 = time.time()
            r = subprocess.run([os.path.join(ROOT, "check"), prop, "--tier", tier.split("+")[0]], cwd=ROOT, capture_output=True, text=True,
                               env=dict(os.environ, VERIF_REPO=scratch, VERIF_NO_ESCALATE="1" if tier == "quick" else "0"))
            viol = [l for l in r.stdout.splitlines() if l.startswith("VIOLATION")]
            if r.returncode == 1 and viol:
                result, tier_hit = "caught", tier
                nofail = any("no-failing-input-found" in l for l in viol)
                detail = f"{len(viol)} VIOLATION line(s){' (no-failing-input-found)' if nofail else ' with failing input'}; {time.time()-t0:.0f}s"
                break
            detail = (r.stdout.strip().splitlines() or ["?"])[-1][:120]
    subprocess.run(["git", "-C", "/repo", "worktree", "remove", "--force", scratch], capture_output=True)
    subprocess.run(["rm", "-rf", scratch, scratch + "-verif-target"])
    print(d, prop, result, tier_hit, detail, flush=True)
    return (d, prop, result, tier_hit, meta.get("summary", "")[:110], detail)


with concurrent.futures.ThreadPoolExecutor(max_workers=jobs) as ex:
    rows = list(ex.map(one, todo))
prev = {}
out = os.path.join(SEEDED, "RESULTS.md")
if only and os.path.exists(out):
    for l in open(out):
        c = [x.strip() for x in l.strip().strip("|").split("|")]
        if len(c) == 6 and c[0] not in ("seeded change", "---"):
            prev[c[0]] = tuple(c)
for r in rows:
    prev[r[0]] = r
with open(out, "w") as f:
    f.write("| seeded change | property | result | tier | what was changed | detail |\n|---|---|---|---|---|---|\n")
    for k in sorted(prev):
        f.write("| " + " | ".join(str(x).replace("|", "/") for x in prev[k]) + " |\n")
