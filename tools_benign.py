#!/usr/bin/env python3
"""Runs the registered checks against every benign (property-preserving) rewrite under benign/<name>/ (patch.diff +
meta.json). Expected result: exit 0. Scratch worktree under /var/tmp, VERIF_REPO mode. Writes benign/RESULTS.md.
Development tool: not part of the registered commands."""
import json, os, subprocess, sys, time
ROOT = os.path.dirname(os.path.abspath(__file__))
DIR = os.path.join(ROOT, "benign")
import concurrent.futures
args = sys.argv[1:]
jobs = 1
if "-j" in args:
    i = args.index("-j")
    jobs = int(args[i + 1])
    del args[i:i + 2]
only = args
rows = {}
out = os.path.join(DIR, "RESULTS.md")
if os.path.exists(out):
    for l in open(out):
        c = [x.strip() for x in l.strip().strip("|").split("|")]
        if len(c) == 5 and c[0] not in ("benign rewrite", "---"):
            rows[c[0]] = c
todo = []
for d in sorted(os.listdir(DIR)):
    p = os.path.join(DIR, d)
    if not os.path.isfile(os.path.join(p, "patch.diff")):
        continue
    if only and not any(d.startswith(o) or o in d for o in only):
        continue
    todo.append(d)


def one(d):
    p = os.path.join(DIR, d)
    meta = json.load(open(os.path.join(p, "meta.json")))
    prop = meta["property"]
    scratch = f"/var/tmp/benigntest/{d}"
    subprocess.run(["git", "-C", "/repo", "worktree", "remove", "--force", scratch], capture_output=True)
    subprocess.run(["rm", "-rf", scratch, scratch + "-verif-target"])
    os.makedirs("/var/tmp/benigntest", exist_ok=True)
    subprocess.run(["git", "-C", "/repo", "worktree", "add", "-q", scratch, "HEAD"], check=True)
    ap = subprocess.run(["git", "-C", scratch, "apply", os.path.join(p, "patch.diff")], capture_output=True, text=True)
    if ap.returncode != 0:
        res, detail = "patch-does-not-apply", ap.stderr.strip()[:100]
    else:
        t0 = time.time()
        r = subprocess.run([os.path.join(ROOT, "check"), prop, "--tier", "quick"], cwd=ROOT, capture_output=True, text=True,
                           env=dict(os.environ, VERIF_REPO=scratch))
        viol = [l for l in r.stdout.splitlines() if l.startswith("VIOLATION")]
        if r.returncode == 0 and not viol:
            res, detail = "quiet (ok)", f"{time.time()-t0:.0f}s"
        else:
            kinds = []
            for l in viol:
                path = l.split("replay=")[1].split()[0]
                try:
                    b = json.load(open(path))
                    kinds.append(f"{b.get('kind')}:{b.get('site')}:{b.get('cls')}" + (" nofail" if b.get("no_failing_input_found") else ""))
                except Exception:
                    kinds.append("?")
            res, detail = "ALARM", "; ".join(kinds)[:300]
    subprocess.run(["git", "-C", "/repo", "worktree", "remove", "--force", scratch], capture_output=True)
    subprocess.run(["rm", "-rf", scratch, scratch + "-verif-target"])
    print(d, prop, res, detail, flush=True)
    return [d, prop, res, meta.get("summary", "")[:120].replace("|", "/").replace("\n", " "), detail.replace("|", "/")]


with concurrent.futures.ThreadPoolExecutor(max_workers=jobs) as ex:
    for r in ex.map(one, todo):
        rows[r[0]] = r
with open(out, "w") as f:
    f.write("| benign rewrite | property | result | what was rewritten | detail |\n|---|---|---|---|---|\n")
    for k in sorted(rows):
        f.write("| " + " | ".join(rows[k]) + " |\n")
