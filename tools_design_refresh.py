#!/usr/bin/env python3
"""Rewrites the generated blocks of DESIGN.md (between `<!-- gen:NAME -->` and `<!-- /gen:NAME -->`) from
evidence/*.json, known_findings.d/*.json, known_findings.json, seeded/RESULTS.md and benign/RESULTS.md.
Development tool; run after the checks and the seeded/benign matrices."""
import glob, json, os, re, collections
ROOT = os.path.dirname(os.path.abspath(__file__))


def evidence_table():
    out = ["| id | theorems audited (all discharged) | cases (tier of the committed evidence) | distinct non-trivial | model = code on | known findings hit | wall s |",
           "|---|---|---|---|---|---|---|"]
    tot = 0
    for f in sorted(glob.glob(os.path.join(ROOT, "evidence", "C*.json"))):
        e = json.load(open(f)); c = e["coverage"]
        tot += c["obligations"]
        out.append(f"| {e['property_id']} | {c['discharged']}/{c['obligations']} | {c['evaluations']} ({e['tier']}) | {c['distinct_nontrivial']} | "
                   f"{c['traces_validated_against_impl']} | {len(c.get('known_findings_hit', []))} | {e['wall_s']} |")
    out.append(f"\nTotal: {tot} theorems in `MahfModel.Props.*`, each audited with `collectAxioms` on every run (accepted: `propext`, `Classical.choice`, `Quot.sound`).")
    return "\n".join(out)


def findings_table():
    out = ["| property | site [class] | what fails on the unchanged tree (why recorded rather than repaired) |", "|---|---|---|"]
    for f in sorted(glob.glob(os.path.join(ROOT, "known_findings.d", "C*.json"))):
        for k in json.load(open(f)).get("findings", []):
            note = re.sub(r"\s+", " ", k.get("note", "")).replace("|", "/")
            out.append(f"| {k['property']} | `{k['site']}` [{k['class']}] | {note[:420]} |")
    return "\n".join(out)


def fixed_list():
    k = json.load(open(os.path.join(ROOT, "known_findings.json")))
    return "\n".join("* " + re.sub(r"\s+", " ", x).replace("|", "/")[:330] for x in k.get("fixed", []))


def rows(path, ncol):
    r = []
    if os.path.exists(path):
        for l in open(path):
            c = [x.strip() for x in l.strip().strip("|").split("|")]
            if len(c) == ncol and c[0] not in ("seeded change", "benign rewrite", "---") and not set(c[0]) <= set("-"):
                r.append(c)
    return r


def seeded_summary():
    r = rows(os.path.join(ROOT, "seeded", "RESULTS.md"), 6)
    waves = collections.OrderedDict([("wave 1 (`sub-m*`, reverses of fixes)", lambda n: "-sub-" in n or "reverted" in n),
                                     ("wave 2 (`sub2-n*`)", lambda n: "-sub2-" in n), ("wave 3 (`sub3-p*`)", lambda n: "-sub3-" in n),
                                     ("wave 4 (`sub4-p*`: away from the centre, cooperating sites)", lambda n: "-sub4-" in n),
                                     ("wave 5 (`sub5-p*`: shared infrastructure, caches, narrowing, second type parameter)", lambda n: "-sub5-" in n),
                                    ("wave 6 (`sub6-p*`: rarely-taken branches, helpers, parameter validation, iterator adaptors)", lambda n: "-sub6-" in n)])
    out = ["| wave | changes | caught by the quick generator alone | … only with the escalated budget | … only by the thorough tier | of those: with a concrete failing input | `no-failing-input-found` | missed | does not apply |",
           "|---|---|---|---|---|---|---|---|---|"]
    for name, pred in waves.items():
        rr = [x for x in r if pred(x[0])]
        if not rr:
            continue
        caught = [x for x in rr if x[2] == "caught"]
        out.append(f"| {name} | {len(rr)} | {sum(1 for x in caught if x[3] == 'quick')} | {sum(1 for x in caught if x[3] == 'quick+esc')} | "
                   f"{sum(1 for x in caught if x[3] == 'thorough')} | {sum(1 for x in caught if 'with failing input' in x[5])} | "
                   f"{sum(1 for x in caught if 'no-failing-input-found' in x[5])} | {sum(1 for x in rr if x[2] == 'MISSED')} | {sum(1 for x in rr if 'apply' in x[2])} |")
    missed = [x[0] for x in r if x[2] == "MISSED"]
    nofail = [x[0] for x in r if x[2] == "caught" and "no-failing-input-found" in x[5]]
    out.append(f"\nTotal {len(r)} seeded changes. Missed: {', '.join(missed) or 'none'}. Reported without a failing input: {', '.join(nofail) or 'none'}.")
    return "\n".join(out)


def benign_summary():
    r = rows(os.path.join(ROOT, "benign", "RESULTS.md"), 5)
    quiet = [x for x in r if x[2].startswith("quiet")]
    alarm = [x for x in r if not x[2].startswith("quiet")]
    s = f"{len(r)} behaviour-preserving rewrites ({sum(1 for x in r if '-w2-' in x[0])} of them written by independent sub-agents that saw only the property text); quiet: {len(quiet)}; alarms: {len(alarm)}"
    if alarm:
        s += " (" + "; ".join(f"{x[0]}: {x[4][:80]}" for x in alarm) + ")"
    return s + "."


GEN = dict(evidence=evidence_table, findings=findings_table, fixed=fixed_list, seeded=seeded_summary, benign=benign_summary)
p = os.path.join(ROOT, "DESIGN.md")
s = open(p).read()
for name, fn in GEN.items():
    a, b = f"<!-- gen:{name} -->", f"<!-- /gen:{name} -->"
    if a in s and b in s:
        s = s[:s.index(a) + len(a)] + "\n" + fn() + "\n" + s[s.index(b):]
        print("refreshed", name)
open(p, "w").write(s)
