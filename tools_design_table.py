#!/usr/bin/env python3
"""Prints the markdown tables of DESIGN.md §12.5/§12.6 from evidence/*.json, known_findings.d and seeded/RESULTS.md."""
import json, os, re, glob
ROOT = os.path.dirname(os.path.abspath(__file__))
print("| id | theorems (audited) | quick cases | distinct non-trivial | agree | known findings hit | quick wall s |")
print("|---|---|---|---|---|---|---|")
for f in sorted(glob.glob(os.path.join(ROOT, "evidence", "C*.json"))):
    e = json.load(open(f)); c = e["coverage"]
    print(f"| {e['property_id']} | {c['discharged']}/{c['obligations']} | {c['evaluations']} | {c['distinct_nontrivial']} | {c['traces_validated_against_impl']} | {len(c.get('known_findings_hit', []))} | {e['wall_s']} |")
print()
print("| property | site | class | what fails |")
print("|---|---|---|---|")
for f in sorted(glob.glob(os.path.join(ROOT, "known_findings.d", "C*.json"))):
    for k in json.load(open(f)).get("findings", []):
        print(f"| {k['property']} | `{k['site']}` | `{k['class']}` | {k.get('note','')[:160]} |")
print()
res = os.path.join(ROOT, "seeded", "RESULTS.md")
if os.path.exists(res):
    print(open(res).read())
